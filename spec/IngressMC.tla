----------------------------- MODULE IngressMC -----------------------------
(***************************************************************************)
(* The finite abstract tables of C10 / C08 and their two uses:             *)
(*  (MC)  Spec: every row (configuration, request) is an initial state;    *)
(*        the design-level facts of Ingress.tla are invariants.            *)
(*  (GEN) GenSpec: every configuration is an initial state and is printed  *)
(*        with the complete set of its abstract requests as JSON - inputs  *)
(*        only; expected outcomes are never exported (IngressTrace decides)*)
(* Families:                                                               *)
(*  "A"  order / channel / overlapping paths: 1..n routes with distinct    *)
(*       paths out of {/, /a, /a/b, /c}, every channel in every position,  *)
(*       inbound routes without or with a method block;                    *)
(*  "B"  one criterion (or a combination) deciding: /a with every match    *)
(*       template alone, before / after a second route (fallback, same     *)
(*       kind of criterion, non-inbound);                                  *)
(*  "P"  basic auth, "H" HMAC auth, "F" forward auth: one authenticated    *)
(*       inbound route /h and the complete auth-material table;            *)
(*  "X"  two routes /h/x and /h with different auth kinds (or none), and   *)
(*       the material of either sent to both: authentication is that of    *)
(*       the route that resolves, nothing else.                            *)
(***************************************************************************)
EXTENDS Ingress, Json

CONSTANTS
  Fams,          \* subset of {"A", "B", "P", "H", "F", "X"}
  AShape,        \* AShape[n] = size of the path universe for family-A configurations with n routes (0 = none)
  PresenceFull,  \* TRUE: HMAC header-presence combinations crossed with everything; FALSE: only with clock offset 0
  Lite           \* TRUE: smaller tables for the quick tier (families A and B, see AKindsFor and ConfigsB)

VARIABLES cfg, req
vars == <<cfg, req>>

(* ------------------------------------------------------------ constants *)
NoneReq == [k |-> "none", v |-> ""]
NoAuth  == [k |-> "none", users |-> <<>>, pwform |-> "", names |-> "", tol |-> 0, st |-> <<>>, vs |-> <<>>, tmo |-> "", ep |-> ""]
NoCred  == [k |-> "none", wf |-> "", user |-> "", pwof |-> "", pwrel |-> "", ps |-> "", pt |-> "", pn |-> "",
            tsf |-> "", ts |-> 0, now |-> 0, sigc |-> "", key |-> "", fk |-> "", code |-> 0]

HX   == [k |-> "exact", l |-> <<"hooks", "example", "com">>]
HS   == [k |-> "sub",   l |-> <<"example", "com">>]
HS2  == [k |-> "sub",   l |-> <<"example", "org">>]
HAny == [k |-> "any",   l |-> <<>>]
H6   == [k |-> "exact", l |-> <<"[v6]">>]          \* an IPv6 literal as Host: one opaque label

M0 == [methods |-> <<>>, hosts |-> <<>>, hdr |-> NoneReq, q |-> NoneReq, ips |-> <<>>]
Tpl == [none  |-> M0,
        mGet  |-> [M0 EXCEPT !.methods = <<"GET">>],
        mPP   |-> [M0 EXCEPT !.methods = <<"POST", "PUT">>],
        hX    |-> [M0 EXCEPT !.hosts = <<HX>>],
        hS    |-> [M0 EXCEPT !.hosts = <<HS>>],
        hAny  |-> [M0 EXCEPT !.hosts = <<HAny>>],
        hXS2  |-> [M0 EXCEPT !.hosts = <<HX, HS2>>],
        h6S   |-> [M0 EXCEPT !.hosts = <<H6, HS>>],
        xE    |-> [M0 EXCEPT !.hdr = [k |-> "exists", v |-> ""]],
        xV    |-> [M0 EXCEPT !.hdr = [k |-> "value", v |-> "v"]],
        qE    |-> [M0 EXCEPT !.q = [k |-> "exists", v |-> ""]],
        qV    |-> [M0 EXCEPT !.q = [k |-> "value", v |-> "v"]],
        iA4   |-> [M0 EXCEPT !.ips = <<"A4">>],
        iA6S4 |-> [M0 EXCEPT !.ips = <<"A6", "S4">>],
        iS6A4 |-> [M0 EXCEPT !.ips = <<"S6", "A4">>],
        c1    |-> [M0 EXCEPT !.methods = <<"GET">>, !.hosts = <<HX>>, !.hdr = [k |-> "value", v |-> "v"]],
        c2    |-> [M0 EXCEPT !.hosts = <<HS>>, !.q = [k |-> "value", v |-> "v"], !.ips = <<"A4">>],
        c3    |-> [methods |-> <<"POST", "PUT">>, hosts |-> <<HX, HS2>>, hdr |-> [k |-> "exists", v |-> ""],
                   q |-> [k |-> "value", v |-> "v"], ips |-> <<"A4", "A6">>]]
TplKind == [none |-> "none", mGet |-> "method", mPP |-> "method", hX |-> "host", hS |-> "host", hAny |-> "host",
            hXS2 |-> "host", h6S |-> "host", xE |-> "hdr", xV |-> "hdr", qE |-> "q", qV |-> "q",
            iA4 |-> "ip", iA6S4 |-> "ip", iS6A4 |-> "ip", c1 |-> "combo", c2 |-> "combo", c3 |-> "combo"]
TplNames == DOMAIN Tpl
BTpl == TplNames \ {"none"}

\* number of deliver targets by position (a rule, so that the table is not multiplied by it): inbound routes
\* alternate pull / one target / two targets, internal routes are pull routes, outbound routes deliver
TgOf(i, ch) == IF ch = "internal" THEN 0 ELSE IF ch = "outbound" THEN 1 + (i % 2) ELSE i % 3

Rt(ch, path, tn, i) == [ch |-> ch, path |-> path, m |-> Tpl[tn], auth |-> NoAuth, tg |-> TgOf(i, ch)]

(* ------------------------------------------------------------- family A *)
APathSeq == << <<"a">>, <<"a", "b">>, <<>>, <<"c">> >>
APaths(n) == {APathSeq[i] : i \in 1..AShape[n]}
\* what a family-A route can be: inbound (no match block, GET only, POST+PUT), outbound, internal
AKinds == {<<"inbound", "none">>, <<"inbound", "mGet">>, <<"inbound", "mPP">>, <<"outbound", "none">>, <<"internal", "none">>}
\* four-route configurations (Lite: three-route ones too) leave the POST+PUT block out; it is exercised in every
\* position by the shorter ones
AKindsFor(n) == IF n >= 4 \/ (Lite /\ n >= 3) THEN AKinds \ {<<"inbound", "mPP">>} ELSE AKinds
Injective(f) == \A i, j \in DOMAIN f : i # j => f[i] # f[j]
ConfigsA ==
  UNION {
    {[i \in 1..n |-> Rt(ks[i][1], ps[i], ks[i][2], i)] :
        ps \in {f \in [1..n -> APaths(n)] : Injective(f)}, ks \in [1..n -> AKindsFor(n)]}
    : n \in {n \in DOMAIN AShape : AShape[n] >= n}}

(* ------------------------------------------------------------- family B *)
PA  == <<"a">>
PAB == <<"a", "b">>
\* templates that are also paired with a second template of the same kind (Lite: not the combinations, whose
\* request sets are the largest)
BPair == IF Lite THEN {t \in BTpl : TplKind[t] # "combo"} ELSE BTpl
ConfigsB ==
  \* the template alone
  {<<Rt("inbound", PA, t, 1)>> : t \in BTpl}
  \* before a second route: catch-all inbound, non-inbound at the same depth or below, same kind of criterion below
  \cup {<<Rt("inbound", PA, t, 1), Rt("inbound", <<>>, "none", 2)>> : t \in BTpl}
  \cup {<<Rt("inbound", PA, t, 1), Rt("outbound", <<>>, "none", 2)>> : t \in BTpl}
  \cup {<<Rt("inbound", PA, t, 1), Rt("internal", PAB, "none", 2)>> : t \in BTpl}
  \cup UNION {{<<Rt("inbound", PA, t, 1), Rt("inbound", PAB, u, 2)>> : u \in {u \in BTpl : TplKind[u] = TplKind[t] /\ u # t}} : t \in BPair}
  \* the more specific path first
  \cup UNION {{<<Rt("inbound", PAB, t, 1), Rt("inbound", PA, u, 2)>> : u \in {u \in BTpl : TplKind[u] = TplKind[t]}} : t \in BPair}
  \* behind a non-inbound route that covers the same paths
  \cup {<<Rt(ch, <<>>, "none", 1), Rt("inbound", PA, t, 2)>> : t \in BTpl, ch \in {"outbound", "internal"}}

(* ------------------------------------------------------- families P H F *)
PH  == <<"h">>
PHX == <<"h", "x">>
AuthRt(a, methods) == [ch |-> "inbound", path |-> PH, m |-> [M0 EXCEPT !.methods = methods], auth |-> a, tg |-> 0]
AuthRt2(a, methods) == [AuthRt(a, methods) EXCEPT !.tg = 2]

BasicAuths ==
  {[NoAuth EXCEPT !.k = "basic", !.users = <<[u |-> "u1", p |-> "p1"]>>, !.pwform = "plain"],
   [NoAuth EXCEPT !.k = "basic", !.users = <<[u |-> "u1", p |-> "p1"], [u |-> "u2", p |-> "p2"]>>, !.pwform = "plain"],
   [NoAuth EXCEPT !.k = "basic", !.users = <<[u |-> "u1", p |-> "p1"]>>, !.pwform = "ref"]}
ConfigsP == {<<AuthRt(a, <<>>)>> : a \in BasicAuths} \cup {<<AuthRt2(a, <<>>), Rt("inbound", <<>>, "none", 2)>> : a \in BasicAuths}

V(id, from, until) == [id |-> id, from |-> from, until |-> until]
HmacA(names, tol, st, vs) == [NoAuth EXCEPT !.k = "hmac", !.names = names, !.tol = tol, !.st = st, !.vs = vs]
HmacAuths ==
  {HmacA("default", 300, <<"s1">>, <<>>),
   HmacA("custom", 30, <<"s1", "s2">>, <<>>),
   HmacA("default", 300, <<>>, <<V("k1", 0, NoEnd)>>),
   HmacA("custom", 30, <<>>, <<V("k1", 0, 1000), V("k2", 900, NoEnd)>>),
   HmacA("default", 300, <<>>, <<V("k1", 0, 1000), V("k2", 1000, 2000), V("k3", 2000, NoEnd)>>),
   HmacA("custom", 300, <<"s1">>, <<V("k1", 1000, 2000)>>)}
ConfigsH == {<<AuthRt(a, IF Len(a.st) = 2 THEN <<"POST", "PUT">> ELSE <<>>)>> : a \in HmacAuths}

FwdA(tmo, ep) == [NoAuth EXCEPT !.k = "forward", !.tmo = tmo, !.ep = ep]
ConfigsF == {<<AuthRt(FwdA("default", "script"), <<>>)>>, <<AuthRt2(FwdA("short", "script"), <<>>)>>,
             <<AuthRt(FwdA("default", "closed"), <<>>)>>}

XRt(path, a, tg) == [ch |-> "inbound", path |-> path, m |-> M0, auth |-> a, tg |-> tg]
XHmac  == HmacA("default", 300, <<"s1">>, <<>>)
XBasic == [NoAuth EXCEPT !.k = "basic", !.users = <<[u |-> "u1", p |-> "p1"]>>, !.pwform = "plain"]
ConfigsX == {<<XRt(PHX, XHmac, 0), XRt(PH, XBasic, 1)>>, <<XRt(PHX, XBasic, 0), XRt(PH, XHmac, 2)>>,
             <<XRt(PHX, XHmac, 0), XRt(PH, NoAuth, 0)>>, <<XRt(PH, NoAuth, 0), XRt(PHX, XHmac, 0)>>,
             <<XRt(PH, XBasic, 0), XRt(PHX, XHmac, 0)>>}
IsX(c) == Len(c) = 2 /\ {c[1].path, c[2].path} = {PH, PHX}

Configs ==
  (IF "X" \in Fams THEN ConfigsX ELSE {}) \cup
  (IF "A" \in Fams THEN ConfigsA ELSE {}) \cup (IF "B" \in Fams THEN ConfigsB ELSE {})
  \cup (IF "P" \in Fams THEN ConfigsP ELSE {}) \cup (IF "H" \in Fams THEN ConfigsH ELSE {})
  \cup (IF "F" \in Fams THEN ConfigsF ELSE {})

(* ------------------------------------------------- request attribute classes *)
Paths9 == {<<>>, <<"a">>, <<"a", "b">>, <<"a", "b", "d">>, <<"a", "d">>, <<"ab">>, <<"a", "bc">>, <<"c">>, <<"x">>}
PathsB == {<<"a">>, <<"a", "b">>, <<"ab">>, <<"x">>}

DefaultHost == <<"other", "test">>
HostsFull == {<<"hooks", "example", "com">>, <<"example", "com">>, <<"api", "example", "com">>, <<"a", "b", "example", "com">>,
              <<"evilexample", "com">>, <<"example", "com", "evil", "net">>, <<"x", "example", "org">>, <<"example", "org">>,
              DefaultHost, <<"[v6]">>}
HostsRed == {<<"hooks", "example", "com">>, <<"example", "com">>, DefaultHost}

ValsFull == {<<>>, <<"w">>, <<"v">>, <<"w", "v", "u">>, <<"w", "vv">>, <<"">>}     \* "vv": a look-alike of v; "": present but empty
ValsRed  == {<<>>, <<"w">>, <<"w", "v", "u">>}

Ip(f, p, form) == [fam |-> f, pos |-> p, form |-> form]
DefaultIp == Ip(4, 0, "plain")
IpsFull == {Ip(4, p, "plain") : p \in {0, 2, 3, 4, 6, 7, 8, 9}} \cup {Ip(4, p, "mapped") : p \in {2, 3, 6, 7, 8}}
           \cup {Ip(6, p, "plain") : p \in {0, 2, 3, 4, 6, 7, 8, 9}}
IpsRed == {Ip(4, 4, "plain"), Ip(4, 7, "plain"), Ip(4, 4, "mapped"), Ip(6, 4, "plain")}

Used(c, k) == \E i \in DOMAIN c : Declared(k, c[i])
NUsed(c) == Cardinality({k \in {"host", "hdr", "q", "ip"} : Used(c, k)})
DeclaresMethods(c) == \E i \in DOMAIN c : c[i].m.methods # <<>>
HasAuth(c) == \E i \in DOMAIN c : c[i].auth.k # "none"

(* ------------------------------------------------------- auth material *)
BasicCreds(a) ==
  LET B == [NoCred EXCEPT !.k = "basic"]
      users == {a.users[i].u : i \in DOMAIN a.users} \cup {"ux"}
      pws   == {a.users[i].p : i \in DOMAIN a.users}
  IN {[B EXCEPT !.wf = w] : w \in {"absent", "scheme", "badb64", "nocolon"}}
     \cup {[B EXCEPT !.wf = "ok", !.user = u, !.pwof = p, !.pwrel = r] :
             u \in users, p \in pws,
             \* "reftext": the literal text of the password reference of the configuration (pwform = "ref") sent as password
             r \in {"eq", "shorter", "longer", "samelen", "empty"} \cup (IF a.pwform = "ref" THEN {"reftext"} ELSE {})}

Keys(a) == Range(a.st) \cup {a.vs[i].id : i \in DOMAIN a.vs}
Bounds(a) == {a.vs[i].from : i \in DOMAIN a.vs} \cup ({a.vs[i].until : i \in DOMAIN a.vs} \ {NoEnd})
TsPoints(a) == {500} \cup UNION {{b - 1, b} : b \in Bounds(a)}
\* clock offset now - ts in ms: beyond, just beyond, at, just inside the tolerance on both sides, and none
Deltas(a) == LET t == a.tol * 1000 IN {-t - 1000, -t - 1, -t, -t + 1, 0, t - 1, t, t + 1, t + 1000}
AltSigs == {"alt_body", "alt_path", "alt_method", "alt_ts", "alt_sig", "nothex", "trunc", "ext"}
BestKey(a, ts) == IF \E kk \in Keys(a) : KeyValidAt(a, kk, ts)
                  THEN CHOOSE kk \in Keys(a) : KeyValidAt(a, kk, ts) ELSE CHOOSE kk \in Keys(a) : TRUE
SigKeys(a, ts) == {<<"ok", kk>> : kk \in Keys(a) \cup {"unconf"}} \cup {<<s, BestKey(a, ts)>> : s \in AltSigs}
Pres == {"present", "blank", "absent"}
AllPresent == <<"present", "present", "present">>
HmacCreds(a) ==
  LET H == [NoCred EXCEPT !.k = "hmac"]
      mk(p, tsf, ts, d, sk) == [H EXCEPT !.ps = p[1], !.pt = p[2], !.pn = p[3], !.tsf = tsf, !.ts = ts,
                                         !.now = ts * 1000 + d, !.sigc = sk[1], !.key = sk[2]]
      P3 == Pres \X Pres \X Pres
  IN UNION {
       {mk(AllPresent, "int", ts, d, sk) : d \in Deltas(a), sk \in SigKeys(a, ts)}
       \cup {mk(p, "int", ts, d, sk) : p \in P3 \ {AllPresent}, d \in (IF PresenceFull THEN Deltas(a) ELSE {0}), sk \in SigKeys(a, ts)}
       \cup {mk(p, "unparsable", ts, 0, sk) : p \in (IF PresenceFull THEN P3 ELSE {AllPresent}), sk \in SigKeys(a, ts)}
       : ts \in TsPoints(a)}

FwdStatuses == {200, 201, 204, 299, 300, 301, 302, 303, 304, 307, 308, 400, 401, 402, 403, 404, 407, 418, 429, 500, 502, 503, 504}
ForwardCreds(a) ==
  LET F == [NoCred EXCEPT !.k = "forward"]
  IN IF a.ep = "closed" THEN {[F EXCEPT !.fk = "refused"]}
     ELSE IF a.tmo = "short" THEN {[F EXCEPT !.fk = "timeout"]} \cup {[F EXCEPT !.fk = "status", !.code = s] : s \in {200, 401, 403, 500}}
     ELSE {[F EXCEPT !.fk = "status", !.code = s] : s \in FwdStatuses} \cup {[F EXCEPT !.fk = "reset"]}

Creds(c) ==
  LET a == c[1].auth
  IN CASE a.k = "basic"   -> BasicCreds(a)
       [] a.k = "hmac"    -> HmacCreds(a)
       [] a.k = "forward" -> ForwardCreds(a)
       [] OTHER           -> {NoCred}

\* a small set of material per auth kind for the two-route configurations
CredsLite(a) ==
  CASE a.k = "basic" ->
         LET B == [NoCred EXCEPT !.k = "basic"]
         IN {[B EXCEPT !.wf = "absent"], [B EXCEPT !.wf = "ok", !.user = "u1", !.pwof = "p1", !.pwrel = "eq"],
             [B EXCEPT !.wf = "ok", !.user = "u1", !.pwof = "p1", !.pwrel = "samelen"]}
    [] a.k = "hmac" ->
         LET H == [NoCred EXCEPT !.k = "hmac", !.tsf = "int", !.ts = 500, !.now = 500000]
         IN {[H EXCEPT !.ps = "present", !.pt = "present", !.pn = "present", !.sigc = sk[1], !.key = sk[2]] : sk \in SigKeys(a, 500)}
            \cup {[H EXCEPT !.ps = p[1], !.pt = p[2], !.pn = p[3], !.sigc = "ok", !.key = BestKey(a, 500)] : p \in (Pres \X Pres \X Pres)}
    [] OTHER -> {NoCred}

(* ------------------------------------------------------------- requests *)
Rq(p, mth, h, x, qq, ip, cr) == [path |-> p, method |-> mth, host |-> h, hdr |-> x, q |-> qq, ip |-> ip, cred |-> cr]

Requests(c) ==
  IF IsX(c)
  THEN {Rq(p, "POST", DefaultHost, <<>>, <<>>, DefaultIp, cr) :
           p \in {PH, PHX, <<"h", "y">>}, cr \in {NoCred} \cup UNION {CredsLite(c[i].auth) : i \in DOMAIN c}}
  ELSE IF HasAuth(c)
  THEN {Rq(p, mth, DefaultHost, <<>>, <<>>, DefaultIp, cr) :
           p \in (IF c[1].auth.k = "hmac" THEN {PHX} ELSE {PH, PHX}),
           mth \in (IF c[1].m.methods = <<>> THEN {"POST"} ELSE Range(c[1].m.methods)),
           cr \in Creds(c)}
  ELSE LET n    == NUsed(c)
           full == n <= 2
       IN {Rq(p, mth, h, x, qq, ip, NoCred) :
             p   \in (IF n = 0 THEN Paths9 ELSE PathsB),
             mth \in (IF n = 0 THEN {"POST", "GET", "PUT", "DELETE"}
                      ELSE IF DeclaresMethods(c) THEN {"POST", "GET", "PUT"} ELSE {"POST", "GET"}),
             h   \in (IF Used(c, "host") THEN (IF full THEN HostsFull ELSE HostsRed) ELSE {DefaultHost}),
             x   \in (IF Used(c, "hdr") THEN (IF full THEN ValsFull ELSE ValsRed) ELSE {<<>>}),
             qq  \in (IF Used(c, "q") THEN (IF full THEN ValsFull ELSE ValsRed) ELSE {<<>>}),
             ip  \in (IF Used(c, "ip") THEN (IF full THEN IpsFull ELSE IpsRed) ELSE {DefaultIp})}

(* ------------------------------------------------------------------- MC *)
Init == cfg \in Configs /\ req \in Requests(cfg)
Next == UNCHANGED vars
Spec == Init /\ [][Next]_vars

RowFacts == DesignFacts(cfg, req)

\* the table is not degenerate: route paths unique, non-inbound routes carry no match block / auth
TableOK ==
  /\ \A i, j \in DOMAIN cfg : i # j => cfg[i].path # cfg[j].path
  /\ \A i \in DOMAIN cfg : cfg[i].ch # "inbound" => (cfg[i].m = M0 /\ cfg[i].auth = NoAuth)
  /\ \A i \in DOMAIN cfg : (cfg[i].ch = "outbound" => cfg[i].tg >= 1) /\ (cfg[i].ch = "internal" => cfg[i].tg = 0)
  /\ Len(cfg) \in 1..4

(* ------------------------------------------------------------------ GEN *)
NoReq == [path |-> <<>>, method |-> "", host |-> <<>>, hdr |-> <<>>, q |-> <<>>, ip |-> DefaultIp, cred |-> NoCred]
GenInit == cfg \in Configs /\ req = NoReq
GenSpec == GenInit /\ [][Next]_vars
EmitConfig == PrintT(<<"CFG", ToJson([cfg |-> cfg, reqs |-> Requests(cfg)])>>)
=============================================================================
