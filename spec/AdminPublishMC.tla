--------------------------- MODULE AdminPublishMC ---------------------------
(***************************************************************************)
(* Design-level model checking of AdminPublish.tla: the states are         *)
(* (frame, batch) pairs - a frame fixes policy, path, scope, request-level *)
(* class, padding and queue situation; batches grow item by item up to the *)
(* frame's bound.  The invariants are the all-or-nothing rules.            *)
(***************************************************************************)
EXTENDS AdminPublish

CONSTANT MaxLen      \* bound of the exhaustively explored batches in the "full" frames (3 quick, 4 thorough)

VARIABLES fr, items
vars == <<fr, items>>

F(pol, path, scope, req, pad, lim, q, sel, maxlen) ==
  [pol |-> pol, path |-> path, scope |-> scope, req |-> req, pad |-> pad[1], tail |-> pad[2], lim |-> lim, q |-> q, sel |-> sel, maxlen |-> maxlen,
   \* queue_limits.max_depth and the free room before the request (near-full frames: depth 8, room 1)
   depth |-> IF lim = "none" THEN 0 ELSE 8, room |-> IF lim = "none" THEN 0 ELSE 1]

\* large batches into a queue that has room for only a part of them: n items (one abstract item behind n-1 acceptable
\* ones), 60 active messages before, max_depth = 60 + room
BigActive == 60
FB(path, scope, n, lim, q, room) ==
  [F("P0", path, scope, "ok", <<n - 1, 0>>, lim, q, "bigq", 1) EXCEPT !.depth = BigActive + room, !.room = room]

BigFrames ==
  IF MaxLen >= 4
  THEN UNION { { FB(ps[1], ps[2], n, lim, q, room) : room \in {1, 249, 250, 251, n - 1} } :
                 ps \in {<<"global", "-">>, <<"scoped", "app1/ep1">>}, n \in {251, 400, 600, 1000},
                 lim \in {"reject", "drop_oldest"}, q \in {"near_full", "near_full_leased"} }
  ELSE { FB(ps[1], ps[2], x[1], lq[1], lq[2], x[2]) :
           ps \in {<<"global", "-">>, <<"scoped", "app1/ep1">>}, x \in {<<251, 250>>, <<400, 1>>, <<400, 250>>, <<400, 399>>, <<600, 599>>, <<1000, 501>>},
           lq \in {<<"reject", "near_full">>, <<"drop_oldest", "near_full_leased">>} }

NoPad == <<0, 0>>

PathScopes == {<<"global", "-">>, <<"scoped", "app1/ep1">>, <<"scoped", "app1/ep2">>}

PadsFor(ps) ==
  IF MaxLen >= 4 THEN {<<996, 0>>, <<997, 0>>, <<0, 996>>, <<498, 498>>, <<0, 997>>, <<7, 0>>, <<0, 7>>, <<30, 30>>, <<250, 3>>}
  ELSE IF ps[1] = "global" THEN {<<996, 0>>, <<997, 0>>, <<0, 996>>} ELSE {<<996, 0>>}

Frames ==
  \* every batch up to MaxLen under the default policy
  { F("P0", ps[1], ps[2], "ok", NoPad, "none", "base", "full", MaxLen) : ps \in PathScopes } \cup
  \* the other policies
  { F(p, ps[1], ps[2], "ok", NoPad, "none", "base", "light", 2) : p \in Policies \ {"P0"}, ps \in PathScopes } \cup
  \* request-level classes
  { F(p, ps[1], ps[2], rq, NoPad, "none", "base", "req", 2) :
      p \in {"P0", "Paudit", "Pactors"}, ps \in {<<"global", "-">>, <<"scoped", "app1/ep1">>}, rq \in ReqClasses \ {"ok"} } \cup
  \* scopes that must be refused as a whole
  { F(p, "scoped", s, "ok", NoPad, "none", "base", "req", 2) : p \in {"P0", "Ppull_off"}, s \in {"app2/ep1", "app2/ep2", "app9/ep9"} } \cup
  \* 1000 / 1001 items: acceptable items in front of (pad) and behind (tail) the abstract batch of 4
  UNION { { F("P0", ps[1], ps[2], "ok", pad, "none", "base", "pad", 4) : pad \in PadsFor(ps) } :
            ps \in {<<"global", "-">>, <<"scoped", "app1/ep1">>} } \cup
  \* near-full queues under both drop policies
  { F("P0", ps[1], ps[2], "ok", NoPad, lim, q, "queue", 4) :
      ps \in {<<"global", "-">>, <<"scoped", "app1/ep1">>}, lim \in {"reject", "drop_oldest"}, q \in {"near_full", "near_full_leased"} } \cup
  BigFrames

SmallKinds(f) == {Filler(f.path, f.scope), "payload_over", "dup_queue", "dup_prev", "missing_id", "header_bad_value"}

PadKinds(f) == IF MaxLen >= 4 THEN SmallKinds(f) ELSE {Filler(f.path, f.scope), "payload_over", "dup_queue"}

FrameKinds(f) == IF f.sel = "bigq" THEN {Filler(f.path, f.scope), "payload_over"} ELSE IF f.sel = "queue" THEN SmallKinds(f) ELSE IF f.sel = "pad" THEN PadKinds(f) ELSE Kinds(f.path)

Init == fr \in Frames /\ items = <<>>

Next ==
  /\ Len(items) < fr.maxlen
  /\ \E k \in FrameKinds(fr) : items' = Append(items, k)
  /\ UNCHANGED fr

Spec == Init /\ [][Next]_vars

\* ------------------------------------------------------------------ shorthands
O(it)   == Offending(fr.pol, fr.path, fr.scope, fr.req, it)
RR(it)  == ReqReasons(fr.pol, fr.path, fr.scope, fr.req, fr.pad + fr.tail + Len(it))
Out(it) == Outcome(fr.pol, fr.path, fr.scope, fr.req, fr.pad + fr.tail, it)
Adm(it) == AdmissibleIdx(fr.pol, fr.path, fr.scope, fr.req, it)
Rs(it, i) == Reasons(fr.pol, fr.path, fr.scope, it, i)
MinOf(S) == CHOOSE x \in S : \A y \in S : x <= y
NonEmpty == Len(items) >= 1

\* ------------------------------------------------------------------ design rules
TypeOK == /\ Out(items) \in {"refuse", "store_all"}
          /\ \A i \in 1..Len(items) : items[i] \in Kinds(fr.path)

\* any offending item (or request-level problem) => nothing is stored
NothingStoredIfOffending == NonEmpty => ((O(items) # {} \/ RR(items) # {}) => Out(items) = "refuse")

\* stored => every item, and no item has any reason against it
StoredMeansAll == NonEmpty => (Out(items) = "store_all" => (RR(items) = {} /\ (ItemsVisible(fr.req) => \A i \in 1..Len(items) : Rs(items, i) = {})))

\* the index an error may name is an offending one; there is one whenever an item offends
IndexNamesOffender == /\ Adm(items) \subseteq O(items)
                      /\ (O(items) # {}) <=> (Adm(items) # {})

\* exactly one offending item: it is the one
SingleOffender == Cardinality(O(items)) = 1 => Adm(items) = O(items)

\* several offending items, all for the same single reason: the first
SameKindFirst ==
  (O(items) # {} /\ \E r \in UNION {Rs(items, i) : i \in O(items)} : \A i \in O(items) : Rs(items, i) = {r})
    => Adm(items) = {MinOf(O(items))}

\* the first offending item is always an admissible answer
FirstAlwaysAdmissible == O(items) # {} => MinOf(O(items)) \in Adm(items)

\* acceptable items under the default policy are stored
FillerAccepted ==
  (NonEmpty /\ fr.pol = "P0" /\ fr.req \in {"ok", "actor_bad", "actor_prefixed", "no_actor", "no_reqid"} /\ fr.pad + fr.tail + Len(items) <= MaxItems
     /\ fr.scope \in {"-", "app1/ep1", "app1/ep2"} /\ \A i \in 1..Len(items) : items[i] = Filler(fr.path, fr.scope))
    => Out(items) = "store_all"

\* every reason has refusal statuses only
StatusesAreRefusals ==
  \A i \in O(items) : \A r \in Rs(items, i) : StatusOf(r) # {} /\ StatusOf(r) \cap {"200", "201", "202", "204"} = {}

\* appending an item never turns a refused batch into a stored one
Monotone == Len(items) >= 2 => (Out(SubSeq(items, 1, Len(items) - 1)) = "refuse" => Out(items) = "refuse")
=============================================================================
