---------------------------- MODULE IngressTrace ----------------------------
(***************************************************************************)
(* Trace validation of the real ingress pipeline against Ingress.tla       *)
(* ("follow mode").  The trace is a concatenation of behaviours: a Cfg     *)
(* event carries an abstract configuration, every following Req event an   *)
(* abstract request (the table row), the concrete request the harness made *)
(* of it, and what was observed: status, Allow header, the messages that   *)
(* appeared in the queue dump (route index, target index, payload match),  *)
(* and how many earlier messages vanished or changed.  For every Req event *)
(* the observation must be what Outcome(cfg, req) says.  A failed check    *)
(* prints <<"FAIL", line, event, check>> and validation goes on.  The run  *)
(* is accepted iff every line was consumed and no FAIL was printed.        *)
(*                                                                         *)
(* The NAME of a failed outcome check says what kind of divergence it is   *)
(* (it becomes the signature of the finding); naming never accepts         *)
(* anything.  Coverage of the executed rows is counted in TLC registers    *)
(* and written next to the trace file when the run ends.                   *)
(***************************************************************************)
EXTENDS Ingress, Json

CONSTANT TraceFile
Trace == ndJsonDeserialize(TraceFile)

VARIABLES l,   \* next trace line
          C,   \* current abstract configuration
          N    \* per route of C: the criteria that the current RENDERING of C writes only through named matchers
               \* (`@name { ... }` + `match @name`); the spelling does not enter Outcome - every spelling of a criteria
               \* set must resolve like the inline block - it is only counted
vars == <<l, C, N>>

(* ------------------------------------------------------------ registers *)
CritIx == [path |-> 0, method |-> 1, host |-> 2, hdr |-> 3, q |-> 4, ip |-> 5]
AuthIx == [none |-> 0, basic |-> 1, hmac |-> 2, forward |-> 3]
RSat(c)  == 10 + CritIx[c]        \* criterion decided a route and held
RViol(c) == 20 + CritIx[c]        \* criterion decided a route and failed (the only failing one)
RAcc(k)  == 30 + AuthIx[k]        \* accepted (observed and expected) per auth kind of the resolved route
RRej(k)  == 40 + AuthIx[k]        \* rejected by authentication (observed and expected) per auth kind
R404 == 50
R405 == 51
\* criterion kinds of the configuration language, counted when the deciding criterion was written through a named matcher
FineIx == [method |-> 0, host |-> 1, header |-> 2, header_exists |-> 3, query |-> 4, query_exists |-> 5, remote_ip |-> 6]
RNSat(f)  == 60 + FineIx[f]
RNViol(f) == 70 + FineIx[f]
FineOf(c, rt) ==
  CASE c = "method" -> "method" [] c = "host" -> "host" [] c = "ip" -> "remote_ip"
    [] c = "hdr" -> (IF rt.m.hdr.k = "value" THEN "header" ELSE "header_exists")
    [] c = "q"   -> (IF rt.m.q.k = "value" THEN "query" ELSE "query_exists")
RNonInboundSkipped == 52          \* a non-inbound route matched all criteria and was passed over
RFirstOfSeveral == 53             \* more than one inbound route matched: order decided
Registers == {RSat(c) : c \in Criteria} \cup {RViol(c) : c \in Criteria} \cup {RAcc(k) : k \in DOMAIN AuthIx}
             \cup {RRej(k) : k \in DOMAIN AuthIx} \cup {R404, R405, RNonInboundSkipped, RFirstOfSeveral}
             \cup {RNSat(f) : f \in DOMAIN FineIx} \cup {RNViol(f) : f \in DOMAIN FineIx}
ASSUME \A r \in Registers : TLCSet(r, 0)
Bump(r) == TLCSet(r, TLCGet(r) + 1)
BumpIf(b, r) == IF b THEN Bump(r) ELSE TRUE

Chk(name, b) == IF b THEN TRUE ELSE PrintT(<<"FAIL", l, Trace[l].ev, name>>)

Init == l = 1 /\ C = <<>> /\ N = <<>>

IsEvent(name) == l <= Len(Trace) /\ Trace[l].ev = name /\ l' = l + 1

TraceCfg ==
  /\ IsEvent("Cfg")
  /\ C' = Trace[l].cfg
  /\ N' = IF "named" \in DOMAIN Trace[l] THEN Trace[l].named ELSE [i \in DOMAIN Trace[l].cfg |-> <<>>]

(* ----------------------------------------------------------- comparison *)
NewRoutes(obs) == {obs.new[k].ri : k \in DOMAIN obs.new}

Agrees(obs, o) ==
  /\ obs.status \in o.status
  /\ Range(obs.allow) = o.allow
  /\ Len(obs.new) = o.n
  /\ NewRoutes(obs) \subseteq {o.route}

ExpName(o) == IF Accepted(o) THEN "2xx" ELSE ToString(CHOOSE s \in o.status : TRUE)

\* what kind of divergence is it?  (a name, never an excuse)
DivergenceName(cfg, rq, obs) ==
  LET o == Outcome(cfg, rq)
      h == Outcome(AsInbound(cfg), rq)          \* the table read with every route taken as inbound
      r == ResolveFirstInbound(cfg, rq)
  IN IF Agrees(obs, h) /\ h.route # 0
       THEN "resolve/non_inbound_route_served/" \o cfg[h.route].ch
     ELSE IF Agrees(obs, h) /\ h.status = {405}
       THEN "resolve/non_inbound_route_in_allow/" \o
            cfg[MinOf({i \in DOMAIN cfg : cfg[i].ch # "inbound" /\ HoldsAllBut(cfg[i], rq, {"method"})})].ch
     ELSE IF r # 0 /\ cfg[r].auth.k # "none" /\ obs.status \notin o.status
       THEN "auth/" \o AuthRowClass(cfg[r], rq) \o "/observed_" \o ToString(obs.status)
     ELSE IF obs.status \notin o.status
       THEN "resolve/expected_" \o ExpName(o) \o "_observed_" \o ToString(obs.status)
     ELSE IF Range(obs.allow) # o.allow THEN "allow"
     ELSE IF Len(obs.new) # o.n THEN "count"
     ELSE "route"

(* -------------------------------------------------------------- coverage *)
Cover(cfg, rq, obs) ==
  LET o == Outcome(cfg, rq)
      r == ResolveFirstInbound(cfg, rq)
      inb == {i \in DOMAIN cfg : cfg[i].ch = "inbound"}
  IN /\ \A c \in Criteria :
          /\ BumpIf(\E i \in inb : Decides(c, cfg[i], rq) /\ Holds(c, cfg[i], rq), RSat(c))
          /\ BumpIf(\E i \in inb : Decides(c, cfg[i], rq) /\ ~Holds(c, cfg[i], rq), RViol(c))
     /\ \A c \in {"method", "host", "hdr", "q", "ip"} : \A i \in inb :
          (i \in DOMAIN N /\ c \in Range(N[i]) /\ Decides(c, cfg[i], rq))
             => Bump(IF Holds(c, cfg[i], rq) THEN RNSat(FineOf(c, cfg[i])) ELSE RNViol(FineOf(c, cfg[i])))
     /\ BumpIf(Accepted(o) /\ obs.status \in OKStatus, RAcc(cfg[IF r = 0 THEN 1 ELSE r].auth.k))
     /\ BumpIf(r # 0 /\ ~Accepted(o) /\ obs.status \in o.status, RRej(cfg[IF r = 0 THEN 1 ELSE r].auth.k))
     /\ BumpIf(o.status = {404} /\ obs.status = 404, R404)
     /\ BumpIf(o.status = {405} /\ obs.status = 405, R405)
     /\ BumpIf(\E i \in DOMAIN cfg : cfg[i].ch # "inbound" /\ HoldsAllBut(cfg[i], rq, {}) /\ (r = 0 \/ i < r), RNonInboundSkipped)
     /\ BumpIf(Cardinality({i \in inb : HoldsAllBut(cfg[i], rq, {})}) > 1, RFirstOfSeveral)

TraceReq ==
  /\ IsEvent("Req")
  /\ LET e   == Trace[l]
         rq  == e.req
         obs == e.obs
         o   == Outcome(C, rq)
         tis == {obs.new[k].ti : k \in DOMAIN obs.new}
     IN /\ Chk("nocfg", C # <<>>)
        \* status, Allow set, enqueued count and route of the stored messages are what the table says
        /\ IF Agrees(obs, o) THEN TRUE ELSE Chk(DivergenceName(C, rq, obs), FALSE)
        \* one copy per target of the route, each exactly once, carrying the body that was sent
        /\ Chk("targets", Len(obs.new) = o.n => (tis = 1..o.n /\ Cardinality(tis) = Len(obs.new)))
        /\ Chk("payload", \A k \in DOMAIN obs.new : obs.new[k].pl)
        \* nothing that was in the queue before is touched, whatever the answer
        /\ Chk("unchanged", obs.gone = 0 /\ obs.mut = 0)
        \* stated on the observation alone: an answer that is not 2xx leaves the queue as it was
        /\ Chk("rejected_but_enqueued", obs.status \notin OKStatus => Len(obs.new) = 0)
        /\ Chk("accepted_but_not_enqueued", obs.status \in OKStatus => Len(obs.new) >= 1)
        /\ Cover(C, rq, obs)
  /\ UNCHANGED <<C, N>>

Next == TraceCfg \/ TraceReq
Spec == Init /\ [][Next]_vars

CovRecord ==
  [sat  |-> [c \in Criteria |-> TLCGet(RSat(c))], viol |-> [c \in Criteria |-> TLCGet(RViol(c))],
   acc  |-> [k \in DOMAIN AuthIx |-> TLCGet(RAcc(k))], rej |-> [k \in DOMAIN AuthIx |-> TLCGet(RRej(k))],
   s404 |-> TLCGet(R404), s405 |-> TLCGet(R405), noninbound_skipped |-> TLCGet(RNonInboundSkipped),
   first_of_several |-> TLCGet(RFirstOfSeveral),
   named_sat |-> [f \in DOMAIN FineIx |-> TLCGet(RNSat(f))], named_viol |-> [f \in DOMAIN FineIx |-> TLCGet(RNViol(f))]]

\* every line consumed: one state per line plus the initial state
TraceAccepted ==
  LET d == TLCGet("stats").diameter
  IN /\ JsonSerialize(TraceFile \o ".cov", CovRecord)
     /\ IF d - 1 = Len(Trace) THEN TRUE
        ELSE PrintT(<<"REJECTED", "matched", d - 1, "of", Len(Trace)>>) /\ FALSE
=============================================================================
