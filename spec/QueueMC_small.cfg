SPECIFICATION Spec
CONSTANTS
  Ids = {"m1", "m2"}
  Cfg = [backend |-> "memory", maxDepth |-> 2, drop |-> "drop_oldest", retMaxAge |-> 0, pruneInt |-> 0,
         delivMaxAge |-> 0, dlqMaxAge |-> 0, dlqMaxDepth |-> 0, sweepGran |-> 0, pressItems |-> 0,
         pressure |-> TRUE, delivGuard |-> TRUE, dev |-> {}]
  Horizon = 40
  MaxEp = 2
  MaxIns = 3
  Family = {"lease", "operator", "admission", "read"}
  PickRule = "any"
VIEW View
INVARIANT TypeOK
PROPERTIES Conservation FailureIsNoop LeaseExclusive LeaseFence NotBefore NoStarvation DepthBound DropRule OperatorExact
CHECK_DEADLOCK FALSE
