------------------------------ MODULE QueueGen ------------------------------
(***************************************************************************)
(* TLC as test generator.  QueueMC plus a history variable holding the     *)
(* operation sequence (in the JSON vocabulary of the Go executor).  With   *)
(* VIEW View (history excluded) TLC explores every abstract state once and *)
(* evaluates - and therefore prints - every generated transition: one      *)
(* schedule per edge (s, op, s') of the bounded reachable graph, namely    *)
(* the BFS path to s followed by op.  Under -simulate a schedule is taken  *)
(* when the behaviour reaches GenDepth.  Expected results are NOT exported: *)
(* the executed trace is judged by QueueTrace only.                        *)
(***************************************************************************)
EXTENDS QueueMC, Json

CONSTANT GenDepth   \* 0 = print every edge; > 0 = print behaviours of this length (simulation)

VARIABLE hist
gvars == <<S, now, ep, last, hist>>

GenInit == Init /\ hist = <<>>

\* the flag says whether the edge is a self-loop of the abstract graph; the
\* orchestrator chains the self-loop operations of one state into one schedule
Emit(h, loop) == IF GenDepth = 0 \/ Len(h) = GenDepth THEN PrintT(<<"EDGE", IF loop THEN 1 ELSE 0, ToJson(h)>>) ELSE TRUE

GenNext ==
  /\ (GenDepth = 0 \/ Len(hist) < GenDepth)
  /\ Next
  /\ hist' = Append(hist, last'.op)
  /\ Emit(hist', View' = View)

GenSpec == GenInit /\ [][GenNext]_gvars
=============================================================================
