----------------------------- MODULE ConfigLang -----------------------------
(***************************************************************************)
(* Feature model of the Hookaidofile configuration language (C19).         *)
(*                                                                         *)
(* Written from docs/configuration.md and the grammar the parser accepts:  *)
(* which blocks and directives exist, how they nest, which alternative     *)
(* spellings each has, which lexical classes a value can be written in,    *)
(* and which combinations are well-formed (= the parser accepts the text   *)
(* an independent renderer produces for them).  It does NOT say what a     *)
(* configuration means: the oracle of C19 is differential on the real code *)
(* (ConfigLangTrace.tla).  This module is used                             *)
(*   - by ConfigLangGen.tla: TLC enumerates abstract programs;             *)
(*   - by ConfigLangTrace.tla: every executed program is re-checked to be  *)
(*     a well-formed member of this model.                                 *)
(*                                                                         *)
(* An abstract program is a record                                         *)
(*   [cm, order, err, routes, items]                                       *)
(*   nm     near-miss: at most one extra feature instance that repeats a   *)
(*          slot of the program in another (or the same) spelling, or is   *)
(*          the exclusive alternative of one (see WFNm); whether the       *)
(*          parser accepts such a text is OBSERVED, never predicted        *)
(*   cm     comment placement class                                        *)
(*   order  order of the top-level blocks in the file                      *)
(*   err    seeded structural error ("none" | "dup_path")                  *)
(*   routes sequence of route headers [ch, form, pq, path]                 *)
(*   items  sequence of feature instances [r, f, i, sp, v, v2, n]:         *)
(*          r route number (0 = top level), f feature id, i instance of    *)
(*          the nearest indexed ancestor-or-self (deliver #, secret #,     *)
(*          matcher #, var #, basic-auth #), sp spelling, v lexical class  *)
(*          of the (first) value, v2 class of the second value of a pair / *)
(*          of the further values of a multi-value directive / of the      *)
(*          option values of retry, n number of values (pairs).            *)
(***************************************************************************)
EXTENDS Naturals, Sequences, FiniteSets, TLC

SeqRange(s) == {s[k] : k \in DOMAIN s}

-----------------------------------------------------------------------------
(* Lexical value classes (DESIGN.md A.7).                                   *)
VCAll == {"bare",      \* plain unquoted token
          "quoted",    \* the same value in double quotes
          "space",     \* quoted, blank inside (needs quotes)
          "hash",      \* quoted, '#' inside
          "brace",     \* quoted brace look-alike "{x}"
          "dquote",    \* quoted, \" and \\ escapes
          "esc",       \* quoted, \n \t \r escapes
          "unkesc",    \* quoted, unknown escape \q
          "empty",     \* ""
          "blank",     \* " " (whitespace only)
          "ph_env",    \* {$VAR}, variable set
          "ph_envq",   \* "{$VAR}"
          "ph_def",    \* {$UNSET:default}
          "ph_unset",  \* {$UNSET}: empty + warning
          "ph_rt",     \* {env.VAR}
          "ph_file",   \* {file.PATH}
          "ph_embed",  \* "text{$VAR}" placeholder embedded in a quoted value
          "vars",      \* "{vars.NAME}" (must be quoted: '{vars.' lexes as a brace)
          "kw",        \* bare value equal to a sibling directive name
          "kwq",       \* the same, quoted
          "uni",       \* bare non-ASCII
          "slash",     \* bare value starting with '/'
          "at",        \* bare value starting with '@'
          "bad",       \* lexically plain, semantically wrong for the directive
          "ctrl"}      \* non-printable / invisible runes inside the value: NBSP, zero-width space, U+FEFF, U+2028,
                       \* soft hyphen, private use, control bytes such as ESC, BEL, DEL (quoted, sometimes bare)

\* further values of a multi-value directive: a bare keyword would end the list
VC2All == VCAll \ {"kw"}

BlankVC   == {"empty", "blank"}
InvalidVC == {"empty", "blank", "ph_unset"}   \* plus "bad" for the strictly validated kinds, see StrictKinds
SafeVC    == {"bare", "quoted", "ph_env", "ph_envq", "ph_def", "ph_rt", "ph_embed"}

CmClasses    == {"none", "pre", "pre2", "between", "inblock", "eol", "trail", "all"}
OrderClasses == {"canon", "reverse", "routes_first", "interleave", "shuffle"}
ErrClasses   == {"none", "dup_path"}

Chs     == {"bare", "inbound", "outbound", "internal"}
Forms   == {"bare", "single", "wrapper", "wrapjoin"}
Pqs     == {"bare",      \* /hooks/p1
            "quoted",    \* "/hooks/p1"
            "qspace",    \* quoted, blank inside
            "qph",       \* "{$VAR}" (a bare placeholder does not start with '/', so it is no route)
            "qhash",     \* quoted, '#' inside
            "qesc",      \* quoted, \" and \\ escapes
            "qbad",      \* quoted, not starting with '/' (or empty): parses, refused by Compile
            "qctrl"}     \* quoted, non-printable / invisible runes inside
PathIds == {"p1", "p2", "p3", "p4"}
IMAX    == 3

\* retry TYPE [max V] [base V] [cap V] [jitter V]: the spelling names the option subset
RetrySps == {"t", "tm", "tb", "tc", "tj", "tmb", "tmc", "tmj", "tbc", "tbj", "tcj",
             "tmbc", "tmbj", "tmcj", "tbcj", "tmbcj"}

-----------------------------------------------------------------------------
(* The feature table.  Parents precede children.                            *)
Ft(id, par, sps, blk, dsp, kind, nmin, nmax, pair, idx) ==
  [id |-> id, par |-> par, sps |-> sps, blk |-> blk, dsp |-> dsp, kind |-> kind,
   nmin |-> nmin, nmax |-> nmax, pair |-> pair, idx |-> idx]

C(id, par)        == Ft(id, par, {"block"}, {"block"}, "block", "none", 1, 1, FALSE, FALSE)  \* block, no value
L(id, par, kind)  == Ft(id, par, {"-"}, {}, "-", kind, 1, 1, FALSE, FALSE)                  \* single value
M(id, par, kind)  == Ft(id, par, {"line", "rep"}, {}, "line", kind, 1, 2, FALSE, FALSE)     \* a b  |  repeated
PM(id, par, kind) == Ft(id, par, {"line", "rep"}, {}, "line", kind, 1, 2, TRUE, FALSE)      \* pairs
Rp(id, par, kind) == Ft(id, par, {"rep"}, {}, "rep", kind, 1, 2, FALSE, FALSE)              \* repeatable single value
SB(id, par, kind) == Ft(id, par, {"short", "block"}, {"block"}, "block", kind, 1, 1, FALSE, FALSE) \* shorthand | block
Ry(id, par)       == Ft(id, par, RetrySps, {}, "t", "retrytype", 1, 1, FALSE, FALSE)

TlsFeats(b) == << C(b \o ".tls", b),
                  L(b \o ".tls.cert_file", b \o ".tls", "file"),
                  L(b \o ".tls.key_file", b \o ".tls", "file"),
                  L(b \o ".tls.client_ca", b \o ".tls", "file"),
                  L(b \o ".tls.client_auth", b \o ".tls", "clientauth") >>

MatchFeats(b) == << M(b \o ".method", b, "method"),
                    M(b \o ".host", b, "host"),
                    PM(b \o ".header", b, "hname"),
                    M(b \o ".header_exists", b, "hname"),
                    PM(b \o ".query", b, "str"),
                    M(b \o ".remote_ip", b, "ip"),
                    M(b \o ".query_exists", b, "str") >>

FeatSeq ==
  << C("ingress", "top"),
     L("ingress.listen", "ingress", "addr") >>
  \o TlsFeats("ingress") \o
  << C("ingress.rate_limit", "ingress"),
     L("ingress.rate_limit.rps", "ingress.rate_limit", "num"),
     L("ingress.rate_limit.burst", "ingress.rate_limit", "int"),
     C("pull_api", "top"),
     L("pull_api.listen", "pull_api", "addr"),
     L("pull_api.prefix", "pull_api", "prefix"),
     L("pull_api.max_batch", "pull_api", "int"),
     L("pull_api.grpc_listen", "pull_api", "addr"),
     L("pull_api.default_lease_ttl", "pull_api", "dur"),
     L("pull_api.max_lease_ttl", "pull_api", "dur0"),
     L("pull_api.default_max_wait", "pull_api", "dur0"),
     L("pull_api.max_wait", "pull_api", "dur0") >>
  \o TlsFeats("pull_api") \o
  << Rp("pull_api.auth_token", "pull_api", "tokref"),
     C("admin_api", "top"),
     L("admin_api.listen", "admin_api", "addr"),
     L("admin_api.prefix", "admin_api", "prefix") >>
  \o TlsFeats("admin_api") \o
  << Rp("admin_api.auth_token", "admin_api", "tokref"),
     C("observability", "top"),
     SB("obs.access_log", "observability", "bool"),
     L("obs.access_log.enabled", "obs.access_log", "bool"),
     L("obs.access_log.output", "obs.access_log", "logout"),
     L("obs.access_log.path", "obs.access_log", "file"),
     L("obs.access_log.format", "obs.access_log", "logfmt"),
     SB("obs.runtime_log", "observability", "loglevel"),
     L("obs.runtime_log.level", "obs.runtime_log", "loglevel"),
     L("obs.runtime_log.output", "obs.runtime_log", "logout"),
     L("obs.runtime_log.path", "obs.runtime_log", "file"),
     L("obs.runtime_log.format", "obs.runtime_log", "logfmt"),
     SB("obs.metrics", "observability", "bool"),
     L("obs.metrics.enabled", "obs.metrics", "bool"),
     L("obs.metrics.listen", "obs.metrics", "addr"),
     L("obs.metrics.prefix", "obs.metrics", "prefix"),
     SB("obs.tracing", "observability", "bool"),
     L("obs.tracing.enabled", "obs.tracing", "bool"),
     L("obs.tracing.collector", "obs.tracing", "url"),
     L("obs.tracing.url_path", "obs.tracing", "path"),
     L("obs.tracing.timeout", "obs.tracing", "dur"),
     L("obs.tracing.compression", "obs.tracing", "compression"),
     L("obs.tracing.insecure", "obs.tracing", "bool"),
     L("obs.tracing.proxy_url", "obs.tracing", "url"),
     C("obs.tracing.tls", "obs.tracing"),
     L("obs.tracing.tls.ca_file", "obs.tracing.tls", "file"),
     L("obs.tracing.tls.cert_file", "obs.tracing.tls", "file"),
     L("obs.tracing.tls.key_file", "obs.tracing.tls", "file"),
     L("obs.tracing.tls.server_name", "obs.tracing.tls", "str"),
     L("obs.tracing.tls.insecure_skip_verify", "obs.tracing.tls", "bool"),
     C("obs.tracing.retry", "obs.tracing"),
     L("obs.tracing.retry.enabled", "obs.tracing.retry", "bool"),
     L("obs.tracing.retry.initial_interval", "obs.tracing.retry", "dur"),
     L("obs.tracing.retry.max_interval", "obs.tracing.retry", "dur"),
     L("obs.tracing.retry.max_elapsed_time", "obs.tracing.retry", "dur0"),
     Ft("obs.tracing.header", "obs.tracing", {"rep"}, {}, "rep", "hname", 1, 2, TRUE, FALSE),
     C("queue_retention", "top"),
     L("queue_retention.max_age", "queue_retention", "dur0"),
     L("queue_retention.prune_interval", "queue_retention", "dur0"),
     C("delivered_retention", "top"),
     L("delivered_retention.max_age", "delivered_retention", "dur0"),
     C("dlq_retention", "top"),
     L("dlq_retention.max_age", "dlq_retention", "dur0"),
     L("dlq_retention.max_depth", "dlq_retention", "int0"),
     C("queue_limits", "top"),
     L("queue_limits.max_depth", "queue_limits", "int0"),
     L("queue_limits.drop_policy", "queue_limits", "droppolicy"),
     C("defaults", "top"),
     L("defaults.max_body", "defaults", "size"),
     L("defaults.max_headers", "defaults", "size"),
     C("defaults.egress", "defaults"),
     M("defaults.egress.allow", "defaults.egress", "hostrule"),
     M("defaults.egress.deny", "defaults.egress", "hostrule"),
     L("defaults.egress.https_only", "defaults.egress", "bool"),
     L("defaults.egress.redirects", "defaults.egress", "bool"),
     L("defaults.egress.dns_rebind_protection", "defaults.egress", "bool"),
     C("defaults.publish_policy", "defaults"),
     L("defaults.publish_policy.direct", "defaults.publish_policy", "bool"),
     L("defaults.publish_policy.managed", "defaults.publish_policy", "bool"),
     L("defaults.publish_policy.allow_pull_routes", "defaults.publish_policy", "bool"),
     L("defaults.publish_policy.allow_deliver_routes", "defaults.publish_policy", "bool"),
     L("defaults.publish_policy.require_actor", "defaults.publish_policy", "bool"),
     L("defaults.publish_policy.require_request_id", "defaults.publish_policy", "bool"),
     L("defaults.publish_policy.fail_closed", "defaults.publish_policy", "bool"),
     M("defaults.publish_policy.actor_allow", "defaults.publish_policy", "str"),
     M("defaults.publish_policy.actor_prefix", "defaults.publish_policy", "str"),
     C("defaults.deliver", "defaults"),
     Ry("defaults.deliver.retry", "defaults.deliver"),
     L("defaults.deliver.timeout", "defaults.deliver", "dur"),
     L("defaults.deliver.concurrency", "defaults.deliver", "int"),
     C("defaults.trend_signals", "defaults"),
     L("defaults.trend_signals.window", "defaults.trend_signals", "dur"),
     L("defaults.trend_signals.expected_capture_interval", "defaults.trend_signals", "dur"),
     L("defaults.trend_signals.stale_grace_factor", "defaults.trend_signals", "int"),
     L("defaults.trend_signals.sustained_growth_consecutive", "defaults.trend_signals", "int"),
     L("defaults.trend_signals.sustained_growth_min_samples", "defaults.trend_signals", "int"),
     L("defaults.trend_signals.sustained_growth_min_delta", "defaults.trend_signals", "int"),
     L("defaults.trend_signals.recent_surge_min_total", "defaults.trend_signals", "int"),
     L("defaults.trend_signals.recent_surge_min_delta", "defaults.trend_signals", "int"),
     L("defaults.trend_signals.recent_surge_percent", "defaults.trend_signals", "int"),
     L("defaults.trend_signals.dead_share_high_min_total", "defaults.trend_signals", "int"),
     L("defaults.trend_signals.dead_share_high_percent", "defaults.trend_signals", "int"),
     L("defaults.trend_signals.queued_pressure_min_total", "defaults.trend_signals", "int"),
     L("defaults.trend_signals.queued_pressure_percent", "defaults.trend_signals", "int"),
     L("defaults.trend_signals.queued_pressure_leased_multiplier", "defaults.trend_signals", "int"),
     C("defaults.adaptive_backpressure", "defaults"),
     L("defaults.adaptive_backpressure.enabled", "defaults.adaptive_backpressure", "bool"),
     L("defaults.adaptive_backpressure.min_total", "defaults.adaptive_backpressure", "int"),
     L("defaults.adaptive_backpressure.queued_percent", "defaults.adaptive_backpressure", "int"),
     L("defaults.adaptive_backpressure.ready_lag", "defaults.adaptive_backpressure", "dur"),
     L("defaults.adaptive_backpressure.oldest_queued_age", "defaults.adaptive_backpressure", "dur"),
     L("defaults.adaptive_backpressure.sustained_growth", "defaults.adaptive_backpressure", "bool"),
     C("vars", "top"),
     Ft("vars.item", "vars", {"-"}, {}, "-", "varname", 1, 1, TRUE, TRUE),
     C("secrets", "top"),
     Ft("secrets.secret", "secrets", {"block"}, {"block"}, "block", "sid", 1, 1, FALSE, TRUE),
     L("secrets.secret.value", "secrets.secret", "tokref"),
     L("secrets.secret.valid_from", "secrets.secret", "ts"),
     L("secrets.secret.valid_until", "secrets.secret", "ts2"),
     Ft("matcher", "top", {"block"}, {"block"}, "block", "none", 1, 1, FALSE, TRUE) >>
  \o MatchFeats("matcher") \o
  << \* ---------------------------------------------------------------- route level
     L("r.application", "route", "label"),
     L("r.endpoint_name", "route", "label"),
     M("r.match_ref", "route", "mref"),
     C("r.match", "route") >>
  \o MatchFeats("r.match") \o
  << C("r.rate_limit", "route"),
     L("r.rate_limit.rps", "r.rate_limit", "num"),
     L("r.rate_limit.burst", "r.rate_limit", "int"),
     Ft("r.auth_basic", "route", {"-"}, {}, "-", "str", 1, 1, TRUE, TRUE),
     SB("r.auth_forward", "route", "url"),
     L("r.auth_forward.timeout", "r.auth_forward", "dur"),
     M("r.auth_forward.copy_headers", "r.auth_forward", "hname"),
     L("r.auth_forward.body_limit", "r.auth_forward", "size0"),
     Ft("r.auth_hmac", "route", {"inline", "inline_blk", "block", "mixed"},
        {"inline", "inline_blk", "block", "mixed"}, "block", "none", 1, 1, FALSE, FALSE),
     M("r.auth_hmac.secret", "r.auth_hmac", "tokref"),
     M("r.auth_hmac.secret_ref", "r.auth_hmac", "sidref"),
     L("r.auth_hmac.signature_header", "r.auth_hmac", "hname"),
     L("r.auth_hmac.timestamp_header", "r.auth_hmac", "hname"),
     L("r.auth_hmac.nonce_header", "r.auth_hmac", "hname"),
     L("r.auth_hmac.tolerance", "r.auth_hmac", "dur"),
     L("r.max_body", "route", "size"),
     L("r.max_headers", "route", "size"),
     Ft("r.publish", "route", {"short", "block", "dot"}, {"block", "dot"}, "block", "bool", 1, 1, FALSE, FALSE),
     L("r.publish.enabled", "r.publish", "bool"),
     L("r.publish.direct", "r.publish", "bool"),
     L("r.publish.managed", "r.publish", "bool"),
     \* publish { direct V }  followed by  publish.managed V2  (block and dotted form mixed; v = direct, v2 = managed)
     Ft("r.publish_mix", "route", {"-"}, {}, "-", "bool", 1, 1, TRUE, FALSE),
     SB("r.queue", "route", "backend"),
     L("r.queue.backend", "r.queue", "backend"),
     L("r.deliver_concurrency", "route", "int"),
     C("r.pull", "route"),
     L("r.pull.path", "r.pull", "path"),
     Rp("r.pull.auth_token", "r.pull", "tokref"),
     Ft("r.deliver", "route", {"block"}, {"block"}, "block", "url", 1, 1, FALSE, TRUE),
     Ry("r.deliver.retry", "r.deliver"),
     L("r.deliver.timeout", "r.deliver", "dur"),
     L("r.deliver.sign_hmac", "r.deliver", "tokref"),
     M("r.deliver.sign_ref", "r.deliver", "sidref"),
     L("r.deliver.sig_header", "r.deliver", "hname"),
     L("r.deliver.ts_header", "r.deliver", "hname"),
     L("r.deliver.selection", "r.deliver", "selection") >>

FeatIds == {FeatSeq[k].id : k \in DOMAIN FeatSeq}
\* TLCEval: materialise the lookup tables once (TLC would otherwise re-evaluate the function body on every application)
FT      == TLCEval([id \in FeatIds |-> FeatSeq[CHOOSE k \in DOMAIN FeatSeq : FeatSeq[k].id = id]])
FPos    == TLCEval([id \in FeatIds |-> CHOOSE k \in DOMAIN FeatSeq : FeatSeq[k].id = id])

Roots == {"top", "route"}

RECURSIVE RootOf(_)
RootOf(f) == IF FT[f].par \in Roots THEN FT[f].par ELSE RootOf(FT[f].par)

\* nearest indexed ancestor-or-self, "-" when there is none
RECURSIVE IdxRoot(_)
IdxRoot(f) == IF FT[f].idx THEN f ELSE IF FT[f].par \in Roots THEN "-" ELSE IdxRoot(FT[f].par)

RootOfT  == TLCEval([f \in FeatIds |-> RootOf(f)])
IdxRootT == TLCEval([f \in FeatIds |-> IdxRoot(f)])

ValueBlocks == {"r.auth_forward", "r.deliver", "secrets.secret"}   \* value AND block
IsRetry(f)  == FT[f].kind = "retrytype"

UsesV(f, sp)     == FT[f].kind # "none" /\ (sp \notin FT[f].blk \/ f \in ValueBlocks)
UsesV2(f, sp, n) == UsesV(f, sp) /\ (FT[f].pair \/ n >= 2 \/ (IsRetry(f) /\ sp # "t"))

VFor(f)  == IF FT[f].kind = "mref" THEN {"bare"} ELSE VCAll
V2For(f) == IF FT[f].kind = "mref" THEN {"bare"} ELSE VC2All

-----------------------------------------------------------------------------
(* Well-formedness = what the parser accepts.                               *)
WFItem(it, nroutes) ==
  /\ it.f \in FeatIds
  /\ LET t == FT[it.f] IN
     /\ it.sp \in t.sps
     /\ it.n \in t.nmin .. t.nmax
     /\ (t.nmax > 1 /\ it.n = 1 /\ "line" \in t.sps) => it.sp = "line"
     /\ it.v  \in (IF UsesV(it.f, it.sp) THEN VFor(it.f) ELSE {"-"})
     /\ it.v2 \in (IF UsesV2(it.f, it.sp, it.n) THEN V2For(it.f) ELSE {"-"})
     /\ it.i \in 1 .. (IF IdxRootT[it.f] = "-" THEN 1 ELSE IMAX)
     /\ it.r \in (IF RootOfT[it.f] = "top" THEN {0} ELSE 1 .. nroutes)

HasItem(S, r, f, i) == \E x \in S : x.r = r /\ x.f = f /\ x.i = i
ItemOf(S, r, f, i)  == CHOOSE x \in S : x.r = r /\ x.f = f /\ x.i = i
Children(S, pit)    == {x \in S : x.r = pit.r /\ FT[x.f].par = pit.f /\
                                  (IdxRootT[pit.f] = "-" \/ x.i = pit.i)}
ParentI(it)         == IF IdxRootT[FT[it.f].par] = "-" THEN 1 ELSE it.i

HmacOpts == {"r.auth_hmac.signature_header", "r.auth_hmac.timestamp_header",
             "r.auth_hmac.nonce_header", "r.auth_hmac.tolerance"}
HmacSecs == {"r.auth_hmac.secret", "r.auth_hmac.secret_ref"}

\* constraints between an item and its children that the table cannot express
SpecialOK(S, it) ==
  LET kids == {x.f : x \in Children(S, it)} IN
  CASE it.f = "r.auth_hmac" ->
         /\ it.sp = "inline" => kids \cap HmacOpts = {}           \* options need a block
         /\ it.sp \in {"inline", "inline_blk"} => kids \cap HmacSecs # {}   \* something to write inline
         /\ it.sp = "mixed" => kids \cap HmacSecs # {}
    [] it.f = "r.publish" ->
         /\ it.sp = "dot" => (kids # {} /\ "r.publish.enabled" \notin kids)
         /\ ~HasItem(S, it.r, "r.publish_mix", 1)                  \* "duplicate route publish"
    [] it.f = "r.deliver" ->
         ~ ({"r.deliver.sign_hmac", "r.deliver.sign_ref"} \subseteq kids)    \* "duplicate deliver sign hmac"
    [] OTHER -> TRUE

WFItems(S, nroutes) ==
  /\ \A it \in S : WFItem(it, nroutes)
  /\ \A a, b \in S : (a.r = b.r /\ a.f = b.f /\ a.i = b.i) => a = b               \* one instance per slot
  /\ \A it \in S :
       /\ FT[it.f].par \notin Roots =>
            /\ HasItem(S, it.r, FT[it.f].par, ParentI(it))
            /\ ItemOf(S, it.r, FT[it.f].par, ParentI(it)).sp \in FT[FT[it.f].par].blk
       /\ (FT[it.f].idx /\ it.i > 1) => HasItem(S, it.r, it.f, it.i - 1)           \* instances are contiguous
       /\ SpecialOK(S, it)

WFRoutes(rs, err) ==
  /\ \A k \in DOMAIN rs :
       /\ rs[k].ch \in Chs /\ rs[k].form \in Forms /\ rs[k].pq \in Pqs /\ rs[k].path \in PathIds
       /\ (rs[k].form = "bare") <=> (rs[k].ch = "bare")
       /\ rs[k].form = "wrapjoin" =>
            (k > 1 /\ rs[k - 1].ch = rs[k].ch /\ rs[k - 1].form \in {"wrapper", "wrapjoin"})
  /\ err = "none" => \A j, k \in DOMAIN rs : rs[j].path = rs[k].path => j = k
  /\ err = "dup_path" => \E j, k \in DOMAIN rs : j # k /\ rs[j].path = rs[k].path

NonEmpty(p) == Len(p.routes) + Len(p.items) > 0      \* an empty file is "empty config", not a configuration

(* Near-miss programs.  The language has several spellings of one setting (publish block / dotted publish.* /      *)
(* shorthand; shorthand and block forms of queue, metrics, tracing, access_log, runtime_log, auth forward; a        *)
(* directive written twice).  Most such combinations are refused by the parser today; the model does not say which:  *)
(* a near-miss program is the well-formed program p.items plus ONE extra instance x that                             *)
(*   - repeats a slot that p.items already fills (any spelling, optionally with one single-value child), or          *)
(*   - is the exclusive alternative of a present item (sign hmac / sign hmac secret_ref, publish / publish_mix),      *)
(* written before or after it in the same block.  The trace specification requires nothing about `parsed` for       *)
(* them, so a parser that starts (or stops) accepting one of these combinations is exercised by the round-trip       *)
(* checks as soon as it does.                                                                                        *)
Partner == {<<"r.deliver.sign_hmac", "r.deliver.sign_ref">>, <<"r.deliver.sign_ref", "r.deliver.sign_hmac">>,
            <<"r.publish", "r.publish_mix">>, <<"r.publish_mix", "r.publish">>}

\* single-value leaf children (the only children an extra instance may carry)
IsLeafL(f) == FT[f].sps = {"-"} /\ ~FT[f].pair /\ ~FT[f].idx /\ FT[f].kind # "none" /\ FT[f].nmax = 1

NmItem(x) == [r |-> x.r, f |-> x.f, i |-> x.i, sp |-> x.sp, v |-> x.v, v2 |-> x.v2, n |-> x.n]

WFNm(x, S, nroutes) ==
  /\ WFItem(NmItem(x), nroutes)
  /\ x.pos \in {"before", "after"}
  /\ LET par == FT[x.f].par IN
     /\ par \notin Roots =>
          /\ HasItem(S, x.r, par, ParentI(NmItem(x)))
          /\ LET pit == ItemOf(S, x.r, par, ParentI(NmItem(x))) IN
             /\ pit.sp \in FT[par].blk
             /\ par = "r.auth_hmac" => (x.f \notin HmacSecs /\ pit.sp # "inline")
             /\ (par = "r.publish" /\ pit.sp = "dot") => x.f # "r.publish.enabled"
     /\ x.f = "r.auth_hmac" => x.sp = "block"
     /\ (x.f = "r.publish" /\ x.sp = "dot") => x.kf \in {"r.publish.direct", "r.publish.managed"}
  /\ IF x.kf = "-" THEN x.kv = "-"
     ELSE /\ x.kf \in FeatIds /\ FT[x.kf].par = x.f /\ x.sp \in FT[x.f].blk /\ IsLeafL(x.kf)
          /\ x.kv \in VCAll
          /\ x.f = "r.auth_hmac" => x.kf \notin HmacSecs
  /\ \/ HasItem(S, x.r, x.f, x.i)                                                     \* repeats a slot
     \/ \E y \in S : y.r = x.r /\ <<y.f, x.f>> \in Partner /\ (IdxRootT[x.f] = "-" \/ y.i = x.i)  \* exclusive alternative

NmCount(p) == Len(p.nm) + Cardinality({k \in DOMAIN p.nm : p.nm[k].kf # "-"})   \* instances the renderer writes for nm

WFProgram(p) ==
  /\ NonEmpty(p)
  /\ p.cm \in CmClasses /\ p.order \in OrderClasses /\ p.err \in ErrClasses
  /\ WFRoutes(p.routes, p.err)
  /\ WFItems(SeqRange(p.items), Len(p.routes))
  /\ Cardinality(SeqRange(p.items)) = Len(p.items)
  /\ Len(p.nm) <= 1
  /\ \A k \in DOMAIN p.nm : WFNm(p.nm[k], SeqRange(p.items), Len(p.routes))

-----------------------------------------------------------------------------
(* Validity tag: coverage accounting only, never an oracle.                 *)
(* "invalid" = the generator seeded something Compile must refuse,          *)
(* "valid"   = nothing known to be refused and only safe value classes,     *)
(* "maybe"   = depends on cross-field rules the model does not carry.       *)
RouteItems(S, r) == {x \in S : x.r = r}
RouteHas(S, r, f) == \E x \in S : x.r = r /\ x.f = f
IngressOnly == {"r.match_ref", "r.match", "r.rate_limit", "r.auth_basic", "r.auth_forward", "r.auth_hmac"}

RouteInvalid(S, rs, r) ==
  LET pull == RouteHas(S, r, "r.pull")
      dlv  == RouteHas(S, r, "r.deliver")
      ingr == \E f \in IngressOnly : RouteHas(S, r, f)
      tok  == RouteHas(S, r, "r.pull.auth_token") \/ HasItem(S, 0, "pull_api.auth_token", 1)
  IN \/ (pull /\ dlv) \/ (~pull /\ ~dlv)
     \/ (rs[r].ch = "outbound" /\ (pull \/ ingr))
     \/ (rs[r].ch = "internal" /\ (dlv \/ ingr))
     \/ (pull /\ ~(tok /\ HasItem(S, 0, "pull_api", 1)))
     \/ (pull /\ ~RouteHas(S, r, "r.pull.path"))
     \/ (RouteHas(S, r, "r.application") # RouteHas(S, r, "r.endpoint_name"))
     \/ (RouteHas(S, r, "r.deliver_concurrency") /\ ~dlv)
     \/ (RouteHas(S, r, "r.rate_limit") /\ ~RouteHas(S, r, "r.rate_limit.rps"))

\* kinds whose values Compile checks against a syntax ("bad" is refused for them)
StrictKinds == {"dur", "dur0", "size", "size0", "bool", "int", "int0", "num", "url", "path", "clientauth", "logout",
                "logfmt", "loglevel", "compression", "droppolicy", "hostrule", "method", "host", "ip", "tokref",
                "backend", "selection", "retrytype", "ts", "label", "prefix", "sidref", "mref", "varname"}

\* a blank value means "use the default" here
BlankTolerant == {"r.auth_forward.body_limit", "ingress.listen", "pull_api.listen", "admin_api.listen",
                  "pull_api.prefix", "admin_api.prefix", "obs.metrics.listen", "obs.metrics.prefix"}

SeededInvalid(p) ==
  LET S == SeqRange(p.items) IN
  \/ p.err # "none"
  \/ Len(p.routes) = 0
  \/ \E x \in S : x.f \notin BlankTolerant /\ (x.v \in InvalidVC \/ (x.v2 \in InvalidVC /\ x.f # "vars.item"))   \* a var may be empty
  \/ \E x \in S : FT[x.f].kind \in StrictKinds /\ (x.v = "bad" \/ (x.v2 = "bad" /\ ~FT[x.f].pair))
  \/ (/\ HasItem(S, 0, "pull_api", 1) /\ ~HasItem(S, 0, "pull_api.auth_token", 1)
      /\ \/ ~\E r \in DOMAIN p.routes : RouteHas(S, r, "r.pull")
         \/ \E r \in DOMAIN p.routes : RouteHas(S, r, "r.pull") /\ ~RouteHas(S, r, "r.pull.auth_token"))
  \/ (HasItem(S, 0, "ingress.rate_limit", 1) /\ ~HasItem(S, 0, "ingress.rate_limit.rps", 1))
  \/ \E r \in DOMAIN p.routes : RouteInvalid(S, p.routes, r) \/ p.routes[r].pq = "qbad"

\* features whose acceptance depends on rules between several directives
CrossRule == {"ingress.tls", "pull_api.tls", "admin_api.tls", "obs.tracing.tls", "obs.tracing.retry",
              "obs.access_log.path", "obs.access_log.output", "obs.runtime_log.path", "obs.runtime_log.output",
              "pull_api.grpc_listen", "pull_api.max_lease_ttl", "pull_api.max_wait", "pull_api.default_max_wait",
              "r.match_ref", "r.auth_hmac", "r.auth_basic", "r.auth_forward", "r.deliver.sign_ref",
              "r.deliver.sig_header", "r.deliver.ts_header", "r.deliver.selection", "r.queue", "r.queue.backend",
              "r.auth_hmac.secret_ref", "secrets.secret", "vars.item", "obs.tracing.insecure",
              "defaults.deliver.retry", "r.deliver.retry", "obs.metrics.listen", "admin_api.listen", "pull_api.listen",
              "ingress.listen", "admin_api.prefix", "pull_api.prefix", "queue_retention.prune_interval"}

Tag(p) ==
  LET S == SeqRange(p.items) IN
  IF p.nm # << >> THEN "nearmiss"
  ELSE IF SeededInvalid(p) THEN "invalid"
  ELSE IF /\ \A x \in S : x.v \in SafeVC \cup {"-"} /\ x.v2 \in SafeVC \cup {"-"}
          /\ \A x \in S : x.f \notin CrossRule
          /\ \A k \in DOMAIN p.routes : p.routes[k].pq \in {"bare", "quoted"}
       THEN "valid"
       ELSE "maybe"
=============================================================================
