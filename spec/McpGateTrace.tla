---------------------------- MODULE McpGateTrace ----------------------------
(***************************************************************************)
(* Trace validation of the real MCP server against McpGate.tla ("follow    *)
(* mode").  Every line of the trace is one tools/call executed by          *)
(* harness/cmd/hkv-mcp on a real mcp.Server (built as internal/app/mcp.go  *)
(* builds it) over the stdio JSON-RPC framing, in a private scratch        *)
(* environment, together with everything that was observed: tools/list     *)
(* before and after, isError / JSON-RPC error, the audit records, hashes   *)
(* of the config file and the queue database before and after, every       *)
(* intermediate content of the config file (write hook), changes to any    *)
(* other file near the config file, processes spawned or signalled.        *)
(* For every line each clause of C20 is a separately named check; a failed *)
(* check prints <<"FAIL", line, event, check>> and validation continues.   *)
(* The run is accepted iff every line was consumed and no FAIL was printed.*)
(* Checks named harness_* guard the binding (the executor did what the     *)
(* abstract row says); they are infrastructure, not verdicts.              *)
(***************************************************************************)
EXTENDS McpGate, Json, TLC

CONSTANT TraceFile
Trace == ndJsonDeserialize(TraceFile)

VARIABLES l,      \* next trace line
          hs      \* input hashes seen so far: sha of the arguments sent -> input_hash of the audit record
vars == <<l, hs>>

Chk(name, b) == IF b THEN TRUE ELSE PrintT(<<"FAIL", l, Trace[l].ev, name>>)

SeqSet(s) == {s[i] : i \in DOMAIN s}
NoDup(s)  == Cardinality(SeqSet(s)) = Len(s)

SevenFields == {"timestamp", "principal", "role", "tool", "input_hash", "result", "duration_ms"}
Results     == {"denied", "error", "success"}

Init == l = 1 /\ hs = <<>>

\* labels of the concrete arguments: rows printed by TLC carry them (and the executor's ground truth must agree);
\* random rows are labelled by the executor alone
Labels(e) ==
  IF e.row.shape = "random"
  THEN [path |-> e.real.path, pid |-> e.real.pid, extra |-> e.real.extra, actor |-> e.real.actor, mode |-> e.real.mode,
        wire |-> e.real.wire, backend |-> e.real.backend, conf |-> e.real.conf, valid |-> FALSE]
  ELSE e.row.lab

TraceCall ==
  /\ l <= Len(Trace) /\ Trace[l].ev = "Call" /\ l' = l + 1
  /\ LET e     == Trace[l]
         r     == [tool |-> e.row.tool, spell |-> e.row.spell, role |-> e.row.role, mut |-> e.row.mut, rc |-> e.row.rc,
                   principal |-> e.row.principal, actor |-> e.row.actor, shape |-> e.row.shape, lab |-> Labels(e)]
         bt    == r.tool            \* the tool whose arguments and environment the call has
         t     == WireTool(r)       \* the tool the name on the wire is (a near miss of a name is not a tool)
         lab   == r.lab
         mutating == t \in MutatingTools
         want  == ExpectObs(r)
         refuse == Refuse(r)
         au    == e.audits
         one   == Len(au) = 1
         \* observed class: from the audit record for mutating tools, from isError otherwise - never from text
         obs   == IF mutating /\ one THEN (IF au[1].result = "success" THEN "ok" ELSE "refused") ELSE e.obs
         L     == Listed(r.role, r.mut, r.rc, r.principal)
         cfgChanged == e.cfg_after # e.cfg_before
         wr    == e.writes
     IN \* ---- binding of the executor to the abstract row
        /\ Chk("harness_labels", e.row.shape = "random" \/
                 /\ e.real.path = lab.path /\ e.real.pid = lab.pid /\ e.real.extra = lab.extra /\ e.real.mode = lab.mode
                 /\ e.real.wire = lab.wire /\ e.real.backend = lab.backend /\ e.real.conf = lab.conf
                 /\ (r.principal => e.real.actor = lab.actor)
                 /\ ShapeApplies(bt, r.shape) /\ lab = ShapeLab(bt, r.actor, r.shape))
        /\ Chk("harness_name", /\ (r.spell = "exact") = (e.wire_name = bt)
                               /\ (r.spell # "exact" => e.wire_name \notin AllTools))
        /\ Chk("harness_victims", e.victim.present = (bt \in PidTools /\ bt # "instance_start" /\ lab.conf # "nopid"))
        \* ---- role / flag / principal / actor gate: the call ran only if allowed
        /\ Chk("class", want = "any" \/ obs = want)
        /\ Chk("class_iserror", (e.obs = "refused") = (e.is_error \/ e.rpc_error))
        \* ---- tools/list advertises exactly the allowed tools, before and after the call
        /\ Chk("listed", SeqSet(e.listed) = L /\ NoDup(e.listed))
        /\ Chk("listed_after", SeqSet(e.listed_after) = L /\ NoDup(e.listed_after))
        \* ---- refused => no effect on config file, queue, processes
        /\ Chk("noeffect_cfg", refuse => (~cfgChanged /\ Len(wr) = 0))
        /\ Chk("noeffect_db", refuse => e.db_after = e.db_before)
        /\ Chk("noeffect_proxy", refuse => (e.admin_posts = 0 /\ e.admin_gets = 0))    \* nothing forwarded to the Admin API
        /\ Chk("noeffect_proc", refuse => /\ ~e.spawned
                                          /\ (e.victim.present => (e.victim.alive /\ e.victim.hups = 0 /\ ~e.pidfile_gone)))
        \* ---- audit: exactly one record per mutating call (allowed, denied or failed), none otherwise
        \* (a request whose arguments member is not an object is rejected by the JSON-RPC layer before any tool is
        \*  looked up; whether that still counts as a "mutating call" is left open: at most one record)
        /\ Chk("audit_count", /\ e.audit_lines = Len(au)
                              /\ IF lab.wire = "nonobject" THEN Len(au) <= AuditExpected(t) ELSE Len(au) = AuditExpected(t))
        /\ Chk("audit_fields", \A i \in DOMAIN au : /\ au[i].parse_ok /\ SeqSet(au[i].fields) = SevenFields
                                                    /\ au[i].ts_ok /\ au[i].dur_ok /\ au[i].hash_ok)
        /\ Chk("audit_identity", \A i \in DOMAIN au : /\ au[i].tool = t /\ au[i].role = r.role
                                                      /\ au[i].principal = (IF r.principal THEN "ops@example.test" ELSE ""))
        /\ Chk("audit_result", \A i \in DOMAIN au : /\ au[i].result \in Results
                                                    /\ (au[i].result = "success") = (e.obs = "ok")
                                                    /\ (refuse => au[i].result \in {"denied", "error"})
                                                    /\ (~GateR(r) => au[i].result = "denied"))
        \* the input hash is a function of the input, and an injective one on what was tried
        /\ Chk("audit_hash", \A i \in DOMAIN au :
                               /\ (e.args_sha \in DOMAIN hs => hs[e.args_sha] = au[i].ihash)
                               /\ \A k \in DOMAIN hs : (hs[k] = au[i].ihash => k = e.args_sha))
        \* ---- confinement of config-writing tools
        /\ Chk("cfg_writer", (cfgChanged \/ Len(wr) > 0) => t \in ConfigLifecycleTools)
        /\ Chk("cfg_compiles", cfgChanged => e.cfg_after_ok)
        /\ Chk("cfg_writes", \A i \in DOMAIN wr : wr[i].ok \/ wr[i].sha = e.cfg_before)
        /\ Chk("cfg_content", (cfgChanged /\ t = "config_apply") => (e.cfg_after = e.content_sha /\ e.content_ok))
        /\ Chk("cfg_preview", lab.mode = "preview_only" => (~cfgChanged /\ Len(wr) = 0))
        /\ Chk("foreign_untouched", Len(e.foreign_changed) = 0)
        \* a server without a configured config path / db path has no file it may write or queue it may change
        /\ Chk("cfg_unconfigured", lab.conf = "nocfg" => (~cfgChanged /\ Len(wr) = 0))
        /\ Chk("db_unconfigured", lab.conf = "nodb" => e.db_after = e.db_before)
        \* ---- confinement of runtime-control tools: only the configured pid file, only process-control tools act
        /\ Chk("pid_confined", e.fvictim.present => (e.fvictim.alive /\ e.fvictim.hups = 0))
        /\ Chk("proc_actor", /\ e.spawned => t = "instance_start"
                             /\ (e.victim.present /\ ~e.victim.alive) => t = "instance_stop"
                             /\ (e.victim.present /\ e.victim.hups > 0) => t = "instance_reload")
        /\ hs' = IF Len(au) >= 1 /\ e.args_sha \notin DOMAIN hs
                 THEN [k \in DOMAIN hs \cup {e.args_sha} |-> IF k = e.args_sha THEN au[1].ihash ELSE hs[k]]
                 ELSE hs

Next == TraceCall
Spec == Init /\ [][Next]_vars

\* every line consumed: one state per line plus the initial state
TraceAccepted ==
  LET d == TLCGet("stats").diameter
  IN IF d - 1 = Len(Trace) THEN TRUE
     ELSE PrintT(<<"REJECTED", "matched", d - 1, "of", Len(Trace)>>) /\ FALSE
=============================================================================
