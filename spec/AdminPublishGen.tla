--------------------------- MODULE AdminPublishGen ---------------------------
(***************************************************************************)
(* TLC as generator: prints the configuration tables once and the selected *)
(* (frame, batch) rows as JSON - inputs only, no expected results.         *)
(*   full  : every batch of length <= 2 (all pairs of kinds, both orders); *)
(*           longer batches with one non-filler item at every position, or *)
(*           two at (first, last) and (last-1, last)                       *)
(*   light : single items, (k, filler), (filler, k)                        *)
(*   req   : <<filler>>, <<filler, payload_over>>, <<dup_queue>>           *)
(*   pad   : length 4 inside 996 / 997 acceptable items (front / behind)   *)
(*   queue : all-filler batches and a few refused ones                     *)
(*   bigq  : 251 .. 1000 items into a queue with room for a part of them   *)
(***************************************************************************)
EXTENDS AdminPublishMC, Json

AllKinds == SharedKinds \cup GlobalOnly \cup ScopedOnly
ASSUME PrintT(<<"TABLE", ToJson([routes |-> RouteTab, policies |-> PolTab, defMaxBody |-> DefMaxBody, defMaxHeaders |-> DefMaxHeaders,
                                 scopes |-> [s \in Scopes |-> ScopeRoute(s)], reqs |-> ReqClasses,
                                 gkinds |-> Kinds("global"), skinds |-> Kinds("scoped"),
                                 kinds |-> [k \in AllKinds |-> [groute |-> ItemRoute("global", "-", k), tspec |-> ItemTargetSpec(k)]]])>>)

fl == Filler(fr.path, fr.scope)
NonFill == {i \in 1..Len(items) : items[i] # fl}
n == Len(items)

Selected ==
  /\ n >= 1
  /\ CASE fr.sel = "full" ->
            \/ n <= 2
            \/ Cardinality(NonFill) <= 1
            \/ NonFill = {1, n} \/ NonFill = {n - 1, n}
       [] fr.sel = "light" ->
            \/ n = 1
            \/ n = 2 /\ Cardinality(NonFill) <= 1
       [] fr.sel = "req" ->
            items \in {<<fl>>, <<fl, "payload_over">>, <<"dup_queue">>}
       [] fr.sel = "pad" ->
            n = 4 /\ (NonFill \subseteq {4} \/ NonFill \subseteq {1})
       [] fr.sel = "bigq" -> TRUE
       [] fr.sel = "queue" ->
            \/ NonFill = {}
            \/ items \in {<<fl, "payload_over">>, <<fl, fl, "dup_queue">>, <<"dup_queue", fl>>, <<fl, fl, fl, "dup_prev">>}

Emit == Selected => PrintT(<<"ROW", ToJson([fr |-> fr, items |-> items])>>)
=============================================================================
