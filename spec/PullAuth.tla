------------------------------ MODULE PullAuth ------------------------------
(***************************************************************************)
(* C11 - Pull (HTTP), Worker (gRPC) and Admin APIs act only for authorized *)
(* callers.  A decision table, written from the property statement and the *)
(* documentation (docs/pull-api.md "Per-route tokens replace (not extend)  *)
(* the global allowlist", docs/worker-api.md "same token rules",           *)
(* docs/admin-api.md "optional bearer token"), not from the code.          *)
(*                                                                         *)
(* Abstract configuration                                                   *)
(*   own  : sequence of BOOLEAN, one entry per pull route (2..3 routes):   *)
(*          the route declares its own pull tokens                         *)
(*   glob : pull_api declares global tokens                                *)
(*   adm  : admin_api declares tokens                                      *)
(* Abstract credential = (form, whose): how the Authorization value is     *)
(* built, and from whose configured token it is derived.                   *)
(***************************************************************************)
EXTENDS Naturals, Sequences, FiniteSets

Owns == {<<x, y>> : x \in BOOLEAN, y \in BOOLEAN} \cup {<<x, y, z>> : x \in BOOLEAN, y \in BOOLEAN, z \in BOOLEAN}
Cfgs == { [own |-> o, glob |-> g, adm |-> a] :
            o \in Owns, g \in BOOLEAN, a \in BOOLEAN }

NRoutes(c) == Len(c.own)

\* the allow-list a pull route ends up with, as a set of principals
\* ("own" = the addressed route's own tokens, "global" = pull_api tokens)
Effective(c, ep) ==
  IF ep \notin 1..NRoutes(c) THEN {}
  ELSE IF c.own[ep] THEN {"own"}
  ELSE IF c.glob THEN {"global"}
  ELSE {}

\* a configuration compiles iff every pull route ends with a non-empty allow-list
CompileAccepts(c) == \A ep \in 1..NRoutes(c) : Effective(c, ep) # {}

-----------------------------------------------------------------------------
Transports == {"http", "grpc"}
Ops        == {"dequeue", "dequeue_batch", "ack", "ack_batch", "nack", "nack_batch", "nack_dead", "extend"}

\* forms of the Authorization value
Forms == {"absent",       \* no header / no metadata
          "empty",        \* header present, empty value
          "bearer_empty", \* "Bearer " and nothing (or only blanks)
          "basic",        \* "Basic <base64>"
          "malformed",    \* token without scheme, other scheme, no separator
          "lower",        \* "bearer <token>" / "BEARER <token>"
          "exact",        \* "Bearer <token>"
          "blanks",       \* "Bearer   <token>  " - blanks around the token
          "prefix",       \* proper prefix of the token
          "suffix",       \* proper suffix of the token
          "casevar",      \* case variant of the token
          "garbage",      \* token followed by extra characters
          "two_first",    \* two values: good one first, a wrong one second
          "two_second",   \* two values: a wrong one first, good one second
          "two_invalid"}  \* two values, both near-misses

\* whose configured token the value is derived from
Whose == {"none", "global", "own", "other", "admin"}

Bare == {"absent", "empty", "bearer_empty"}     \* carry no token material at all

\* does this (form, whose) pair exist for this configuration / endpoint?
Applicable(c, ep, f, w) ==
  IF f \in Bare THEN w = "none"
  ELSE CASE w = "none"   -> f = "exact"            \* a well-formed token nobody configured
         [] w = "global" -> c.glob
         [] w = "own"    -> ep \in 1..NRoutes(c) /\ c.own[ep]
         [] w = "other"  -> \E j \in 1..NRoutes(c) : j # ep /\ c.own[j]
         [] w = "admin"  -> c.adm

\* is the value a well-formed bearer credential presenting exactly the token it is derived from?
\*   "yes" / "no" / "either" (the statement leaves it open: with several Authorization values, one of
\*   them good, the request does carry a token of the list, and refusing it is safe as well)
Shape(f, tr) ==
  CASE f \in {"exact", "blanks"}          -> "yes"
    [] f = "lower"                        -> IF tr = "grpc" THEN "yes" ELSE "no"   \* gRPC: scheme case-insensitive
    [] f \in {"two_first", "two_second"}  -> "either"
    [] OTHER                              -> "no"

\* decision for a pull / worker request addressed to endpoint ep (0 = an endpoint no route declares)
Allow(c, ep, f, w, tr) ==
  IF ep \notin 1..NRoutes(c) THEN "noroute"
  ELSE IF w \notin Effective(c, ep) THEN "deny"
  ELSE CASE Shape(f, tr) = "yes" -> "allow" [] Shape(f, tr) = "no" -> "deny" [] OTHER -> "either"

\* decision for an admin request: only constrained when admin tokens are configured
AllowAdmin(c, f, w) ==
  IF ~c.adm THEN "allow"
  ELSE IF w # "admin" THEN "deny"
  ELSE CASE Shape(f, "http") = "yes" -> "allow" [] Shape(f, "http") = "no" -> "deny" [] OTHER -> "either"

-----------------------------------------------------------------------------
Decision(r) ==
  CASE r.s = "admin" -> AllowAdmin(r.cfg, r.form, r.whose)
    [] r.s = "pull"  -> Allow(r.cfg, r.ep, r.form, r.whose, r.tr)
    [] OTHER         -> "n/a"

\* status an authorized operation answers with on the seeded queue (non-empty route, live leases)
OwnStatus(tr, op) ==
  IF tr = "grpc" THEN {"OK"}
  ELSE IF op \in {"dequeue", "dequeue_batch", "ack_batch", "nack_batch"} THEN {"200"} ELSE {"204"}

UnauthStatus(tr) == IF tr = "grpc" THEN "Unauthenticated" ELSE "401"
NotFoundStatus(tr) == IF tr = "grpc" THEN "NotFound" ELSE "404"
=============================================================================
