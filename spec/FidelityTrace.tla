---------------------------- MODULE FidelityTrace ----------------------------
(***************************************************************************)
(* Trace validation of C07 ("follow mode", like QueueTrace).  The trace is *)
(* a concatenation of journeys of one message each.  A journey starts with *)
(* a Start event that carries the input (configuration, digest and length  *)
(* of the body that is sent, the header fields as they reach hookaido as    *)
(* abstract [name identity, casing, value token] triples, the fields of    *)
(* the forward-auth response, the configured copy_headers names) and the   *)
(* token table (name identity -> canonical spelling, value token ->        *)
(* string, with byte lengths).  From that the spec computes, with the      *)
(* operators of Fidelity.tla, what must be stored:                          *)
(*     Stored = Plus(Strip(Canon(received)), Copied)                       *)
(* turns it into concrete (name, comma-joined value) pairs with the token  *)
(* table, decides acceptance (body <= max_body, stored headers <=          *)
(* max_headers), and then requires of EVERY later event that               *)
(*   - whatever a channel handed out (pull HTTP, worker gRPC, the worker   *)
(*     server in-process, the admin listings, the push target) has the     *)
(*     digest and length of the accepted body and exactly those headers,   *)
(*   - the raw store dump after the step holds exactly that message,       *)
(*   - no sensitive name and no secret value appears anywhere,             *)
(*   - an oversize body was answered 413 and nothing was stored.           *)
(* nil / empty maps and slices are the same value (the harness logs lists). *)
(* A failed requirement prints <<"FAIL", line, event, check>>; the state    *)
(* follows the log.  Accepted iff every line is consumed and no FAIL.      *)
(***************************************************************************)
EXTENDS Fidelity, Json

CONSTANT TraceFile
Trace == ndJsonDeserialize(TraceFile)

VARIABLES l,    \* next trace line
          J,    \* the current journey: input and what must be stored
          ms    \* abstract state of the message, following the log
vars == <<l, J, ms>>

Chk(name, b) == IF b THEN TRUE ELSE PrintT(<<"FAIL", l, Trace[l].ev, name>>)

(* ------------------------------------------------ from tokens to strings *)
RECURSIVE JoinStr(_, _)
JoinStr(vs, T) == IF Len(vs) = 0 THEN ""
                  ELSE IF Len(vs) = 1 THEN T[vs[1]].s
                  ELSE T[vs[1]].s \o "," \o JoinStr(Tail(vs), T)
RECURSIVE JoinLen(_, _)
JoinLen(vs, T) == IF Len(vs) = 0 THEN 0
                  ELSE IF Len(vs) = 1 THEN T[vs[1]].len
                  ELSE T[vs[1]].len + 1 + JoinLen(Tail(vs), T)
RECURSIVE SumOver(_, _)
SumOver(S, f) == IF S = {} THEN 0 ELSE LET x == CHOOSE y \in S : TRUE IN f[x] + SumOver(S \ {x}, f)

\* what must be stored, abstractly: name identity -> sequence of value tokens
ExpAbs(e)  == Stored(e.c.src, e.recv, SeqRange(e.copy), e.auth)
\* ... as the set of (canonical name, comma-joined value) pairs
ExpConc(e) == LET h == ExpAbs(e) IN {<<e.names[n].s, JoinStr(h[n], e.vals)>> : n \in DOMAIN h}
\* ... and its size as max_headers counts it: name bytes + value bytes
ExpSize(e) == LET h == ExpAbs(e) IN SumOver(DOMAIN h, [n \in DOMAIN h |-> e.names[n].len + JoinLen(h[n], e.vals)])

TooBig(e)  == e.pl.n > e.c.maxBody
Accept(e)  == ~TooBig(e) /\ ExpSize(e) <= e.c.maxHdr

NoJ == [none |-> TRUE]

Pairs(h)  == {<<h[i].k, h[i].v>> : i \in DOMAIN h}
NoDup(h)  == Cardinality({h[i].k : i \in DOMAIN h}) = Len(h)
NoSens(h) == \A i \in DOMAIN h : h[i].lk \notin Sensitive
SamePL(p) == p.d = J.pl.d /\ p.n = J.pl.n
Ingress   == J.c.src = "ingress"
Cnt       == IF J.c.fan THEN 2 ELSE 1      \* stored copies of the message: one per deliver target
Kept      == J.accept /\ ms # "refused"     \* the message is (still) expected in the store

Init == l = 1 /\ J = NoJ /\ ms = "none"

IsEvent(name) == l <= Len(Trace) /\ Trace[l].ev = name /\ l' = l + 1

\* the raw store dump after a step: exactly the accepted message, unchanged
\* the sibling items of a publish batch are stored with their own payload, headers and trace - or not at all
SibOK(e, stored) ==
  IF stored
  THEN /\ Len(e.sibs) = Len(J.sibs)
       /\ \A i \in DOMAIN J.sibs : \E k \in DOMAIN e.sibs :
             /\ e.sibs[k].id = J.sibs[i].id
             /\ e.sibs[k].pl.d = J.sibs[i].pl.d /\ e.sibs[k].pl.n = J.sibs[i].pl.n
             /\ Pairs(e.sibs[k].h) = Pairs(J.sibs[i].h)
             /\ Pairs(e.sibs[k].t) = Pairs(J.sibs[i].t)
  ELSE e.sibs = <<>>

DumpOK(e, stored) ==
  /\ Chk("dump_count", Len(e.dump) = (IF stored THEN Cnt ELSE 0) /\ e.other = 0)
  /\ Chk("dump_trace", ~Ingress => \A i \in DOMAIN e.dump : Pairs(e.dump[i].t) = J.mt)
  /\ Chk("sibling", SibOK(e, stored))
  \* what the in-process consumer still held from its last dequeue did not move under the step in between
  /\ Chk("held", e.held.n >= 1 => SamePL(e.held.pl) /\ Pairs(e.held.h) = J.exp)
  \* the unrelated messages accepted so far are stored as they were sent (payload and maps), nothing else
  /\ Chk("noise", e.noise = e.nwant)
  /\ Chk("dump_payload", \A i \in DOMAIN e.dump : SamePL(e.dump[i].pl))
  /\ Chk("dump_sensitive", Ingress => \A i \in DOMAIN e.dump : NoSens(e.dump[i].h) /\ e.dump[i].leak = <<>>)
  /\ Chk("dump_headers", \A i \in DOMAIN e.dump : Pairs(e.dump[i].h) = J.exp /\ NoDup(e.dump[i].h))

\* what a channel handed out
ObsOK(r) ==
  /\ Chk("encoding", r.enc = "")          \* payload_b64 is standard base64 (with padding)
  /\ Chk("payload", r.n >= 1 => SamePL(r.pl))
  /\ Chk("sensitive", Ingress => NoSens(r.h) /\ r.leak = <<>>)
  /\ Chk("headers", r.n >= 1 => Pairs(r.h) = J.exp /\ NoDup(r.h))

\* the harness' companion message (batch requests that find two ready messages): also unchanged
KOK(k) == k.n >= 1 => /\ k.pl.d = k.wpl.d /\ k.pl.n = k.wpl.n
                      /\ Pairs(k.h) = Pairs(k.sent)

TraceStart ==
  /\ IsEvent("Start")
  /\ LET e == Trace[l]
     IN /\ Chk("emptystore", e.dump = <<>> /\ e.other = 0)
        /\ J' = [none |-> FALSE, c |-> e.c, pl |-> e.pl, exp |-> ExpConc(e), size |-> ExpSize(e),
                 accept |-> Accept(e), toobig |-> TooBig(e), mt |-> Pairs(e.mt), sibs |-> e.xsibs,
                 pexp |-> IF e.c.sg THEN {p \in ExpConc(e) : p[1] \notin SeqRange(e.signnames)} ELSE ExpConc(e)]
        /\ ms' = "new"

TraceSubmit ==
  /\ IsEvent("Submit")
  /\ LET e  == Trace[l]
         ok == e.r.status >= 200 /\ e.r.status <= 299
     IN /\ Chk("status", IF J.accept THEN ok ELSE e.r.status = 413)
        /\ Chk("oversize", J.toobig => e.r.status = 413 /\ e.dump = <<>> /\ e.other = 0)
        /\ Chk("refused_not_stored", ~ok => e.dump = <<>> /\ e.other = 0)
        /\ Chk("stored_count", Len(e.dump) = (IF J.accept THEN Cnt ELSE 0) /\ e.other = 0)
        /\ Chk("stored_payload", \A i \in DOMAIN e.dump : SamePL(e.dump[i].pl))
        /\ Chk("stored_trace", ~Ingress => \A i \in DOMAIN e.dump : Pairs(e.dump[i].t) = J.mt)
        /\ Chk("stored_sibling", SibOK(e, J.accept /\ ok))
        /\ Chk("stored_sensitive", Ingress => \A i \in DOMAIN e.dump : NoSens(e.dump[i].h) /\ e.dump[i].leak = <<>>)
        /\ Chk("stored_headers", \A i \in DOMAIN e.dump : Pairs(e.dump[i].h) = J.exp /\ NoDup(e.dump[i].h))
        /\ ms' = IF ok THEN "queued" ELSE "refused"
  /\ UNCHANGED J

TraceDeq ==
  /\ IsEvent("Deq")
  /\ LET e == Trace[l]
     IN /\ Chk("available", ms = "queued" => e.r.n = 1 /\ e.r.err = "")
        /\ ObsOK(e.r)
        /\ Chk("companion", KOK(e.r.k))
        /\ DumpOK(e, Kept)
        /\ ms' = IF e.r.n >= 1 THEN "leased" ELSE ms
  /\ UNCHANGED J

TraceList ==
  /\ IsEvent("List")
  /\ LET e == Trace[l]
     IN /\ Chk("available", (J.accept /\ ms # "refused" /\ ~e.a.capped /\ (e.a.which \in {"dlq", "mcpdlq"} => ms = "dead")) => e.r.n = Cnt /\ e.r.err = "")
        /\ Chk("fanout", e.r.f.n >= 1 => SamePL(e.r.f.pl) /\ Pairs(e.r.f.h) = J.exp /\ (Ingress => NoSens(e.r.f.h) /\ e.r.f.leak = <<>>))
        /\ Chk("refused_not_listed", ms = "refused" => e.r.n = 0)
        /\ ObsOK(e.r)
        /\ DumpOK(e, Kept)
  /\ UNCHANGED <<J, ms>>

After(o) == CASE o = "ok" -> "delivered" [] o = "retry" -> "queued" [] o = "fatal" -> "dead" [] OTHER -> "queued"

\* push: the body that arrived at the target, the headers the HTTP deliverer put on the request
TracePush ==
  /\ IsEvent("Push")
  /\ LET e == Trace[l]
         r == e.r
     IN /\ Chk("available", ms = "queued" => r.n = 1 /\ r.err = "" /\ (J.c.fan => r.f.n = 1))
        /\ Chk("payload", r.n >= 1 => SamePL(r.pl))
        \* the other target of a fan-out route gets its own copy: same body, same headers
        /\ Chk("fanout", r.f.n >= 1 => /\ SamePL(r.f.pl) /\ J.pexp \subseteq Pairs(r.f.h)
                                        /\ (Ingress => NoSens(r.f.h) /\ r.f.leak = <<>> /\ r.f.wleak = <<>>))
        \* sign hmac: exactly one signature and one timestamp header, and the signature is the one of the ACCEPTED body
        /\ Chk("signature", J.c.sg => /\ (r.n >= 1 => r.sig.have # "" /\ r.sig.have = r.sig.want /\ r.sig.nsig = 1 /\ r.sig.nts = 1)
                                       /\ (r.f.n >= 1 => r.f.sig.have # "" /\ r.f.sig.have = r.f.sig.want /\ r.f.sig.nsig = 1 /\ r.f.sig.nts = 1))
        /\ Chk("sensitive", Ingress => NoSens(r.h) /\ NoSens(r.wh) /\ r.leak = <<>> /\ r.wleak = <<>>)
        /\ Chk("pushhdr", r.n >= 1 => J.pexp \subseteq Pairs(r.h))
        /\ Chk("companion", KOK(r.k))
        /\ DumpOK(e, Kept)
        /\ ms' = IF r.n >= 1 THEN After(e.a.outcome) ELSE ms
  /\ UNCHANGED J

TraceLeaseOp ==
  /\ IsEvent("LeaseOp")
  /\ LET e == Trace[l]
     IN /\ Chk("leaseop", ms = "leased" => e.r.ok)
        /\ DumpOK(e, Kept)
        /\ ms' = IF e.r.ok
                 THEN (CASE e.a.kind = "nack" -> "queued" [] e.a.kind = "dead" -> "dead" [] e.a.kind = "ack" -> "delivered" [] OTHER -> ms)
                 ELSE ms
  /\ UNCHANGED J

\* unrelated traffic through the same instance leaves the message as it is (and is itself stored as sent)
TraceOther ==
  /\ IsEvent("Other")
  /\ DumpOK(Trace[l], Kept)
  /\ UNCHANGED <<J, ms>>

\* extending a lease touches nothing else
TraceExtend ==
  /\ IsEvent("Extend")
  /\ LET e == Trace[l]
     IN /\ Chk("leaseop", ms = "leased" => e.r.ok)
        /\ DumpOK(e, Kept)
  /\ UNCHANGED <<J, ms>>

\* operator: cancel (queued / leased / dead), resume (canceled), requeue (dead / canceled), by id or by filter
TraceOperator ==
  /\ (IsEvent("Cancel") \/ IsEvent("Resume") \/ IsEvent("RequeueMsg"))
  /\ LET e   == Trace[l]
         pre == CASE e.ev = "Cancel"     -> ms \in {"queued", "leased", "dead"}
                  [] e.ev = "Resume"     -> ms = "canceled"
                  [] e.ev = "RequeueMsg" -> ms \in {"dead", "canceled"}
         to  == IF e.ev = "Cancel" THEN "canceled" ELSE "queued"
     IN /\ Chk("operator", pre => e.r.n = Cnt)
        /\ DumpOK(e, Kept)
        /\ ms' = IF e.r.n >= 1 THEN to ELSE ms
  /\ UNCHANGED J

TraceExpire ==
  /\ IsEvent("Expire")
  /\ DumpOK(Trace[l], Kept)
  /\ ms' = IF ms = "leased" THEN "queued" ELSE ms
  /\ UNCHANGED J

TraceRequeue ==
  /\ IsEvent("Requeue")
  /\ LET e == Trace[l]
     IN /\ Chk("requeue", ms = "dead" => e.r.n = Cnt)
        /\ DumpOK(e, Kept)
        /\ ms' = IF e.r.n >= 1 THEN "queued" ELSE ms
  /\ UNCHANGED J

\* the message survives a stop / start on the same database, unchanged
TraceRestart ==
  /\ IsEvent("Restart")
  /\ DumpOK(Trace[l], Kept)
  /\ UNCHANGED <<J, ms>>

\* informational (internal Go API of the store, not a consumer channel)
TraceStoreAlias ==
  /\ IsEvent("StoreAlias")
  /\ UNCHANGED <<J, ms>>

\* nothing that was persisted contains a secret value
TraceScan ==
  /\ IsEvent("Scan")
  /\ Chk("persisted_secret", Ingress => Trace[l].r.found = <<>>)
  /\ UNCHANGED <<J, ms>>

Next ==
  \/ TraceStart \/ TraceSubmit \/ TraceDeq \/ TraceList \/ TracePush \/ TraceLeaseOp \/ TraceExpire
  \/ TraceRequeue \/ TraceRestart \/ TraceStoreAlias \/ TraceScan \/ TraceExtend \/ TraceOperator \/ TraceOther

Spec == Init /\ [][Next]_vars

TraceAccepted ==
  LET d == TLCGet("stats").diameter
  IN IF d - 1 = Len(Trace) THEN TRUE
     ELSE PrintT(<<"REJECTED", "matched", d - 1, "of", Len(Trace)>>) /\ FALSE
=============================================================================
