----------------------------- MODULE DispatchMC -----------------------------
(***************************************************************************)
(* Design-level model of the push dispatcher's worker loop over the        *)
(* operators of Dispatch.tla: a few messages, one or two targets, one or   *)
(* two workers, micro-batched dequeue, per-action or batched settling,     *)
(* operator requeue of dead messages, and target behaviour scripts.        *)
(*                                                                         *)
(* Target scripts.  Every target answers the k-th request it receives with *)
(* the k-th element of its script.  Scripts are not constants: the model   *)
(* chooses every element freely from UseClasses when it is first needed    *)
(* (so ALL scripts of length <= ScriptLen are covered), and a script that  *)
(* has reached ScriptLen repeats its last element for ever ("finite        *)
(* script ending in a stable behaviour").  Only (length, last element) of  *)
(* a script can influence the future, so that is all the state keeps;      *)
(* DispatchGen records the full sequence in its history variable.          *)
(*                                                                         *)
(* Finite by construction (no CONSTRAINT): the attempt counter grows with  *)
(* every lease, a retry needs att <= Max, operator requeues are bounded by *)
(* MaxRequeue, and the clock only jumps to the next scheduled retry.       *)
(*                                                                         *)
(* Assumption of the property ("lease mutations on the store succeed") is  *)
(* built in: a lease never expires under a worker and a settle always      *)
(* takes effect.                                                           *)
(***************************************************************************)
EXTENDS Dispatch

CONSTANTS
  Msgs,        \* message ids
  TargetOf,    \* [Msgs -> target name]
  MaxOf,       \* [target name -> retry.max]
  Att0,        \* [Msgs -> attempt counter at enqueue (Envelope.Attempt preset)]
  Workers,     \* worker ids
  Batch,       \* messages leased by one dequeue
  BatchSettle, \* TRUE: lease actions are applied after the whole micro-batch was delivered
  ScriptLen,   \* free script elements per target; afterwards the last one repeats
  UseClasses,  \* result classes the targets may answer with
  MaxRequeue,  \* operator requeues in one behaviour
  RetryT       \* [base, cap, jn, jd] in abstract time units (small integers)

VARIABLES
  msgs,   \* [Msgs -> message record]
  wk,     \* [Workers -> sequence of [id, out]]   out = "" : leased, not yet sent
  sc,     \* [Targets -> [len, last]]             script progress
  log,    \* set of attempt records (+ result class)
  wire,   \* [Targets -> requests that reached the transport]
  tot,    \* [Msgs -> sends over all cycles]
  rq,     \* operator requeues so far
  now
vars == <<msgs, wk, sc, log, wire, tot, rq, now>>

Targets == {TargetOf[m] : m \in Msgs}
RetryOf(tg) == [max |-> MaxOf[tg], base |-> RetryT.base, cap |-> RetryT.cap, jn |-> RetryT.jn, jd |-> RetryT.jd]

ASSUME \A tg \in Targets : RetryOK(RetryOf(tg))
ASSUME UseClasses \subseteq Classes /\ UseClasses # {}

Init ==
  /\ msgs = [m \in Msgs |-> NewMsg(Att0[m], 0)]
  /\ wk = [w \in Workers |-> <<>>]
  /\ sc = [t \in Targets |-> [len |-> 0, last |-> "none"]]
  /\ log = {}
  /\ wire = [t \in Targets |-> 0]
  /\ tot = [m \in Msgs |-> 0]
  /\ rq = 0
  /\ now = 0

Ready == {m \in Msgs : CanLease(msgs[m], now)}
Min2(a, b) == IF a < b THEN a ELSE b
SetToSeqs(S) == {q \in [1..Cardinality(S) -> S] : \A i, j \in 1..Cardinality(S) : i # j => q[i] # q[j]}

\* dequeue: min(Batch, |Ready|) ready messages, in any order
Dequeue(w, q) ==
  /\ wk[w] = <<>>
  /\ Ready # {}
  /\ Len(q) = Min2(Batch, Cardinality(Ready))
  /\ msgs' = [m \in Msgs |-> IF \E i \in DOMAIN q : q[i] = m THEN Lease(msgs[m]) ELSE msgs[m]]
  /\ wk' = [wk EXCEPT ![w] = [i \in DOMAIN q |-> [id |-> q[i], out |-> ""]]]
  /\ UNCHANGED <<sc, log, wire, tot, rq, now>>

DequeueChoices == UNION {SetToSeqs(S) : S \in SUBSET Ready}

\* the next item of w that has not been sent yet
NextUnsent(w) == IF \E i \in DOMAIN wk[w] : wk[w][i].out = ""
                 THEN CHOOSE i \in DOMAIN wk[w] : wk[w][i].out = "" /\ \A j \in 1..(i - 1) : wk[w][j].out # ""
                 ELSE 0

\* send to the target, get class c, decide, record the attempt
Deliver(w, c) ==
  LET i  == NextUnsent(w)
      id == wk[w][i].id
      tg == TargetOf[id]
      m  == msgs[id]
      o  == Classify(ResOfClass(c), m.att, MaxOf[tg])
  IN /\ i # 0
     /\ BatchSettle \/ i = 1
     /\ IF sc[tg].len < ScriptLen
        THEN c \in UseClasses /\ sc' = [sc EXCEPT ![tg] = [len |-> @.len + 1, last |-> c]]
        ELSE c = sc[tg].last /\ sc' = sc
     /\ msgs' = [msgs EXCEPT ![id] = Send(m)]
     /\ tot' = [tot EXCEPT ![id] = @ + 1]
     /\ wire' = [wire EXCEPT ![tg] = IF c = "denied" THEN @ ELSE @ + 1]
     /\ log' = log \cup {[id |-> id, tg |-> tg, att |-> m.att, cls |-> c,
                          outcome |-> AttemptRec(id, tg, m.att, ResOfClass(c), o).outcome, dr |-> ReasonOf(o)]}
     /\ wk' = [wk EXCEPT ![w][i].out = o]
     /\ UNCHANGED <<rq, now>>

\* apply the lease action of the first item; in batched mode only once the
\* whole micro-batch was sent.  A retry is scheduled anywhere in its window
\* (the model takes the two ends).
SettleHead(w, d) ==
  /\ wk[w] # <<>>
  /\ wk[w][1].out # ""
  /\ BatchSettle => NextUnsent(w) = 0
  /\ LET id == wk[w][1].id
         m  == msgs[id]
         o  == wk[w][1].out
         R  == RetryOf(TargetOf[id])
     IN /\ d \in (IF o = "retry" THEN {DelayLo(m.att, R), DelayHi(m.att, R)} ELSE {0})
        /\ msgs' = [msgs EXCEPT ![id] = Settle(m, o, now + d)]
  /\ wk' = [wk EXCEPT ![w] = Tail(@)]
  /\ UNCHANGED <<sc, log, wire, tot, rq, now>>

SettleDelays == UNION {{0, DelayLo(msgs[m].att, RetryOf(TargetOf[m])), DelayHi(msgs[m].att, RetryOf(TargetOf[m]))} : m \in Msgs}

\* the clock jumps to the next scheduled retry
Waiting == {m \in Msgs : msgs[m].st = "queued" /\ msgs[m].next > now}
Tick ==
  /\ Waiting # {}
  /\ now' = CHOOSE t \in {msgs[m].next : m \in Waiting} : \A m \in Waiting : t <= msgs[m].next
  /\ UNCHANGED <<msgs, wk, sc, log, wire, tot, rq>>

\* operator requeue of a dead message: a new cycle, attempt counter kept
OpRequeue(m) ==
  /\ msgs[m].st = "dead"
  /\ rq < MaxRequeue
  /\ msgs' = [msgs EXCEPT ![m] = Requeue(@, now)]
  /\ rq' = rq + 1
  /\ UNCHANGED <<wk, sc, log, wire, tot, now>>

WorkerStep ==
  \E w \in Workers :
    \/ \E q \in DequeueChoices : Dequeue(w, q)
    \/ \E c \in Classes : Deliver(w, c)
    \/ \E d \in SettleDelays : SettleHead(w, d)

Next == WorkerStep \/ Tick \/ (\E m \in Msgs : OpRequeue(m))

Spec     == Init /\ [][Next]_vars
FairSpec == Spec /\ WF_vars(WorkerStep) /\ WF_vars(Tick)

(***************************************************************************)
(* Properties (C06)                                                        *)
(***************************************************************************)
TypeOK ==
  /\ \A m \in Msgs : msgs[m].st \in MsgStates /\ msgs[m].att >= 0 /\ msgs[m].sends >= 0
  /\ \A w \in Workers : \A i \in DOMAIN wk[w] : wk[w][i].out \in Outcomes \cup {""} /\ msgs[wk[w][i].id].st = "leased"
  \* a leased message is held by exactly one worker, once
  /\ \A m \in Msgs : msgs[m].st = "leased" <=>
        Cardinality({<<w, i>> \in Workers \X (1..Batch) : i \in DOMAIN wk[w] /\ wk[w][i].id = m}) = 1

\* at most retry.max+1 sends per enqueue/requeue cycle
SendsPerCycle == \A m \in Msgs : msgs[m].sends <= MaxOf[TargetOf[m]] + 1

\* over the whole behaviour: one full cycle plus one send per operator requeue at most, once the counter is exhausted
SendsOverall == \A m \in Msgs : tot[m] <= (MaxRequeue + 1) * (MaxOf[TargetOf[m]] + 1)

\* every send is in the attempt log, once, with an outcome the statement admits
AttemptLogged ==
  /\ \A m \in Msgs : Cardinality({r \in log : r.id = m}) = tot[m]
  /\ \A r \in log :
       \E o \in Admissible(ResOfClass(r.cls), r.att, MaxOf[r.tg]) :
          r.outcome = AttemptRec(r.id, r.tg, r.att, ResOfClass(r.cls), o).outcome /\ r.dr = ReasonOf(o)
  /\ \A r1, r2 \in log : (r1.id = r2.id /\ r1.att = r2.att) => r1 = r2

\* the message ends up where its log entry says
SettleMatchesLog ==
  [][\A m \in Msgs :
       (msgs[m].st = "leased" /\ msgs'[m].st # "leased") =>
          \E r \in log : /\ r.id = m /\ r.att = msgs[m].att
                         /\ r.outcome = "acked" => msgs'[m].st = "delivered"
                         /\ r.outcome = "retry" => msgs'[m].st = "queued" /\ msgs'[m].att = msgs[m].att
                         /\ r.outcome = "dead"  => msgs'[m].st = "dead" /\ msgs'[m].dr = r.dr]_vars

DeadHasReason == \A m \in Msgs : IF msgs[m].st = "dead" THEN msgs[m].dr \in Reasons ELSE msgs[m].dr = ""

\* a denied request never reaches the transport; every other one does, once
DeniedMeansNothingSent ==
  [][\A t \in Targets : wire'[t] - wire[t] = Cardinality({r \in log' \ log : r.tg = t /\ r.cls # "denied"})]_vars

\* never delivered before its scheduled time
NotEarly == [][\A m \in Msgs : (msgs[m].st = "queued" /\ msgs'[m].st = "leased") => msgs[m].next <= now]_vars

\* every retry is scheduled inside the window of the failed attempt
DelayWindow ==
  [][\A m \in Msgs :
       (msgs[m].st = "leased" /\ msgs'[m].st = "queued") =>
          InWindow(msgs'[m].next - now, msgs'[m].next - now, msgs[m].att, RetryOf(TargetOf[m]))]_vars

\* only an operator requeue revives a terminal message
TerminalIsFinal ==
  [][\A m \in Msgs : Terminal(msgs[m]) => (msgs'[m] = msgs[m] \/ (msgs[m].st = "dead" /\ rq' = rq + 1))]_vars

\* liveness: never retried for ever, never stuck - under weak fairness of the workers and the clock
EventuallyTerminal == \A m \in Msgs : <>[](Terminal(msgs[m]))
=============================================================================
