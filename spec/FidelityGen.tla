----------------------------- MODULE FidelityGen -----------------------------
(***************************************************************************)
(* TLC as test generator for C07 (same mechanism as QueueGen).  FidelityMC *)
(* plus a history variable holding the operation sequence.  With VIEW View *)
(* (history excluded) TLC visits every abstract state once and prints      *)
(* every generated transition: one schedule per edge of the bounded graph  *)
(* (BFS path to the state, then the operation).  With UseTour the graph is *)
(* one fixed long path per input, so the schedules are (every input) x     *)
(* (the tour).  Under -simulate a schedule is printed when the behaviour   *)
(* reaches GenDepth.  Only inputs are exported; the executed trace is      *)
(* judged by FidelityTrace.                                                *)
(***************************************************************************)
EXTENDS FidelityMC, Json

CONSTANT GenDepth   \* 0 = print every edge; > 0 = print behaviours of this length (simulation)

VARIABLE hist
gvars == <<in, st, ttl, store, obs, nd, na, rs, no, n, last, hist>>

GenInit == Init /\ hist = <<>>

Emit(h, loop) == IF GenDepth = 0 \/ Len(h) = GenDepth THEN PrintT(<<"EDGE", IF loop THEN 1 ELSE 0, ToJson(h)>>) ELSE TRUE

GenNext ==
  /\ (GenDepth = 0 \/ Len(hist) < GenDepth)
  /\ Next
  /\ hist' = Append(hist, last')
  /\ Emit(hist', View' = View)

GenSpec == GenInit /\ [][GenNext]_gvars
=============================================================================
