SPECIFICATION Spec
CONSTANT TraceFile = "trace.ndjson"
POSTCONDITION TraceAccepted
CHECK_DEADLOCK FALSE
