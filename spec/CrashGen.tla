------------------------------ MODULE CrashGen ------------------------------
(***************************************************************************)
(* TLC as generator of client workloads for the crash runs (C01): mixes of *)
(* ingress requests (pull route / fan-out route with three deliver         *)
(* targets), admin publish batches, pull dequeues and lease settlements.   *)
(* Inputs only; the recorded behaviour is judged by CrashTrace.            *)
(***************************************************************************)
EXTENDS Integers, Sequences, FiniteSets, TLC, Json

CONSTANTS Depth, MinLen

VARIABLES hist, stored, held
vars == <<hist, stored, held>>

Init == hist = <<>> /\ stored = 0 /\ held = 0

Step(op) == Len(hist) < Depth /\ hist' = Append(hist, op)
            /\ (Len(hist') >= MinLen => PrintT(<<"WORK", ToJson(hist')>>))

Ingress == \E r \in {"pull", "fan"} : Step([op |-> "ingress", route |-> r])
           /\ stored' = stored + 1 /\ UNCHANGED held
Publish == \E r \in {"pull", "fan"}, n \in {1, 3} : Step([op |-> "publish", route |-> r, n |-> n])
           /\ stored' = stored + 1 /\ UNCHANGED held
Dequeue == stored > 0 /\ Step([op |-> "dequeue", batch |-> 2]) /\ held' = held + 1 /\ UNCHANGED stored
Settle  == held > 0 /\ \E k \in {"ack", "nack", "dead"} : Step([op |-> k])
           /\ held' = held - 1 /\ UNCHANGED stored
\* the batch forms (lease_ids) settle everything that is held
SettleB == held > 0 /\ \E k \in {"ack_batch", "nack_batch", "dead_batch"} : Step([op |-> k])
           /\ held' = 0 /\ UNCHANGED stored

Next == Ingress \/ Publish \/ Dequeue \/ Settle \/ SettleB
Spec == Init /\ [][Next]_vars
=============================================================================
