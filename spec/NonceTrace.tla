----------------------------- MODULE NonceTrace -----------------------------
(***************************************************************************)
(* Trace validation (follow mode) of real ingress executions against       *)
(* Nonce.tla: every request event carries the clock (ms), nonce, signed    *)
(* timestamp (s), the tolerance in force (ms), the HTTP status and the     *)
(* number of messages the request added to the queue.                      *)
(***************************************************************************)
EXTENDS Integers, Sequences, FiniteSets, TLC, Json

CONSTANT TraceFile
Trace == ndJsonDeserialize(TraceFile)

Abs(x) == IF x < 0 THEN -x ELSE x
Within(nowMs, tsSec, tolMs) == Abs(nowMs - tsSec * 1000) <= tolMs
MustReject(H, n, ts, nowMs, tolMs) == \E h \in H : h.n = n /\ (h.ts = ts \/ Within(nowMs, h.ts, tolMs))
WidenedOnly(H, n, ts, nowMs, tolMs) ==
  /\ Within(nowMs, ts, tolMs)
  /\ \A h \in H : (h.n = n /\ (h.ts = ts \/ Within(nowMs, h.ts, tolMs))) => ~Within(nowMs, h.ts, h.tol)

VARIABLES l, H
vars == <<l, H>>
Chk(name, b) == IF b THEN TRUE ELSE PrintT(<<"FAIL", l, Trace[l].ev, name>>)
Init == l = 1 /\ H = {}
IsEvent(name) == l <= Len(Trace) /\ Trace[l].ev = name /\ l' = l + 1

Reset == IsEvent("Reset") /\ H' = {}
Other == (IsEvent("Tick") \/ IsEvent("Reload") \/ IsEvent("OtherTraffic")) /\ UNCHANGED H

\* one request: status 202 => exactly one message added; otherwise none
Req ==
  /\ IsEvent("Req")
  /\ LET e    == Trace[l]
         must == MustReject(H, e.n, e.ts, e.now, e.tol)
         wid  == must /\ WidenedOnly(H, e.n, e.ts, e.now, e.tol)
     IN /\ Chk("enqueue_iff_202", (e.status = 202) <=> (e.enq = 1))
        /\ Chk("no_partial", e.enq \in {0, 1})
        /\ IF wid THEN Chk("replay_rejected_after_widened_tolerance", e.status = 401 /\ e.enq = 0)
           ELSE Chk("replay_rejected", must => (e.status = 401 /\ e.enq = 0))
        /\ Chk("original_accepted", (e.kind = "orig" /\ ~must /\ Within(e.now, e.ts, e.tol)) => e.status = 202)
        /\ H' = IF e.status = 202 THEN H \cup {[n |-> e.n, ts |-> e.ts, tol |-> e.tol]} ELSE H

\* m concurrent copies of one request: at most one may be honoured, none if it must be rejected
Burst ==
  /\ IsEvent("Burst")
  /\ LET e    == Trace[l]
         must == MustReject(H, e.n, e.ts, e.now, e.tol)
         wid  == must /\ WidenedOnly(H, e.n, e.ts, e.now, e.tol)
     IN /\ Chk("burst_enqueue_eq_accepted", e.enq = e.accepted)
        /\ Chk("burst_at_most_one", e.accepted <= 1)
        /\ IF wid THEN Chk("burst_replay_rejected_after_widened_tolerance", e.accepted = 0)
           ELSE Chk("burst_replay_rejected", must => e.accepted = 0)
        /\ H' = IF e.accepted >= 1 THEN H \cup {[n |-> e.n, ts |-> e.ts, tol |-> e.tol]} ELSE H

Next == Reset \/ Other \/ Req \/ Burst
Spec == Init /\ [][Next]_vars
TraceAccepted ==
  LET d == TLCGet("stats").diameter
  IN IF d - 1 = Len(Trace) THEN TRUE ELSE PrintT(<<"REJECTED", "matched", d - 1, "of", Len(Trace)>>) /\ FALSE
=============================================================================
