------------------------------ MODULE McpGate ------------------------------
(***************************************************************************)
(* C20 - the MCP gating table as a specification.                          *)
(*                                                                         *)
(* Transcribed from the DOCUMENTATION, not from the code:                  *)
(*   internal/mcp/spec.md  "Authorization role", the per-tool headings     *)
(*                         "(requires --enable-mutations)" /               *)
(*                         "(requires --enable-runtime-control)", the      *)
(*                         documented argument lists, "Guardrails";        *)
(*   DESIGN.md             "MCP Integration": Tool Families, Access Model, *)
(*                         Guardrails, Config Apply Semantics.             *)
(*                                                                         *)
(* A row of the table is (tool name, role, --enable-mutations,             *)
(* --enable-runtime-control, principal configured?, actor supplied?).      *)
(* A call additionally has an argument SHAPE; what the shape means for the *)
(* outcome is carried by a record of labels (lab).                         *)
(***************************************************************************)
EXTENDS Naturals, FiniteSets, Sequences

Roles  == {"read", "operate", "admin"}
Actors == {"absent", "equal", "different"}

\* read < operate < admin
Rank(r) == CASE r = "read" -> 1 [] r = "operate" -> 2 [] r = "admin" -> 3 [] OTHER -> 0

(***************************************************************************)
(* Tool families (DESIGN.md "Tool Families", spec.md "Tool List").         *)
(***************************************************************************)
ConfigReadTools      == {"config_parse", "config_validate", "config_compile", "config_fmt_preview", "config_diff"}
InspectTools         == {"admin_health", "management_model", "backlog_top_queued", "backlog_oldest_queued",
                         "backlog_aging_summary", "backlog_trends", "messages_list", "attempts_list", "dlq_list"}
QueueMutationTools   == {"dlq_requeue", "dlq_delete", "messages_cancel", "messages_requeue", "messages_resume",
                         "messages_publish", "messages_cancel_by_filter", "messages_requeue_by_filter",
                         "messages_resume_by_filter"}
ConfigLifecycleTools == {"config_apply", "management_endpoint_upsert", "management_endpoint_delete"}
RuntimeInspectTools  == {"instance_status", "instance_logs_tail"}
ProcessControlTools  == {"instance_start", "instance_stop", "instance_reload"}

\* spec.md "Authorization role" / "Guardrails":
\*   read    : inspect-only tools
\*   operate : adds safe queue mutations + runtime inspect tools (instance_status, instance_logs_tail)
\*   admin   : required for config-lifecycle mutations (config_apply, management_endpoint_*) and
\*             runtime process control (instance_start|stop|reload)
ReadTools    == ConfigReadTools \cup InspectTools
OperateTools == QueueMutationTools \cup RuntimeInspectTools
AdminTools   == ConfigLifecycleTools \cup ProcessControlTools
AllTools     == ReadTools \cup OperateTools \cup AdminTools

\* the tools whose heading says "(requires --enable-mutations)" / "(requires --enable-runtime-control)"
MutationFlagTools == ConfigLifecycleTools \cup QueueMutationTools
RuntimeFlagTools  == RuntimeInspectTools \cup ProcessControlTools

\* "Mutating tool calls require a non-empty --principal identity" and "emit structured JSONL audit events":
\* the mutation tools and the runtime process-control tools (the audit metadata families of spec.md "Guardrails")
MutatingTools == MutationFlagTools \cup ProcessControlTools

\* tools whose documented argument list has "actor"
ActorTools == QueueMutationTools \cup {"management_endpoint_upsert", "management_endpoint_delete"}
\* tools whose documented argument list has "path" ("must match the configured --config path")
PathTools  == ConfigReadTools \cup ConfigLifecycleTools
\* tools whose documented argument list has "pid_file" ("only configured --pid-file is accepted")
PidTools   == RuntimeFlagTools
\* "Mutation tools use strict argument allowlists: unknown top-level arguments are rejected"
StrictTools == MutationFlagTools
\* "When compiled queue_backend is memory or postgres, MCP queue tools proxy the configured Admin API endpoints"
QueueReadTools  == {"backlog_top_queued", "backlog_oldest_queued", "backlog_aging_summary", "backlog_trends",
                    "messages_list", "attempts_list", "dlq_list"}
ProxyTools      == QueueMutationTools \cup QueueReadTools

RequiredRole(t) == IF t \in ReadTools THEN "read" ELSE IF t \in OperateTools THEN "operate" ELSE "admin"

(***************************************************************************)
(* The gate: what the server configuration alone decides (this is what     *)
(* tools/list must advertise), and the full decision including the actor.  *)
(***************************************************************************)
Gate(t, role, mut, rc, principal) ==
  /\ t \in AllTools
  /\ Rank(role) >= Rank(RequiredRole(t))
  /\ (t \in MutationFlagTools => mut)
  /\ (t \in RuntimeFlagTools => rc)
  /\ (t \in MutatingTools => principal)

\* the actor a concrete call carries: only tools with a documented actor argument are sent one
EffActor(t, actor) == IF t \in ActorTools THEN actor ELSE "absent"

Allowed(t, role, mut, rc, principal, actor) ==
  /\ Gate(t, role, mut, rc, principal)
  /\ (t \in MutatingTools => EffActor(t, actor) # "different")

Listed(role, mut, rc, principal) == {t \in AllTools : Gate(t, role, mut, rc, principal)}

AuditExpected(t) == IF t \in MutatingTools THEN 1 ELSE 0

Class(t, role, mut, rc, principal, actor) ==
  IF t \notin AllTools THEN "unknown_tool"
  ELSE IF Allowed(t, role, mut, rc, principal, actor) THEN "allowed" ELSE "denied"

DenyReasons(t, role, mut, rc, principal, actor) ==
  IF t \notin AllTools THEN {"unknown_tool"}
  ELSE  (IF Rank(role) < Rank(RequiredRole(t)) THEN {"role"} ELSE {})
   \cup (IF t \in MutationFlagTools /\ ~mut THEN {"mutations_flag"} ELSE {})
   \cup (IF t \in RuntimeFlagTools /\ ~rc THEN {"runtime_flag"} ELSE {})
   \cup (IF t \in MutatingTools /\ ~principal THEN {"principal"} ELSE {})
   \cup (IF t \in MutatingTools /\ EffActor(t, actor) = "different" THEN {"actor"} ELSE {})

(***************************************************************************)
(* Argument shapes.  lab describes the concrete arguments of a call:       *)
(*   path, pid : "none" | "configured" | "alias" (another spelling of the  *)
(*               configured file) | "foreign" (another file) | "badtype"   *)
(*   extra     : an undocumented top-level key is present                  *)
(*   actor     : the actor actually sent, relative to the principal        *)
(*   mode      : write mode asked of a config-writing tool                 *)
(*   backend   : "sqlite" (queue tools act on the local database) | "proxy" *)
(*               (queue backend memory: queue tools forward to the Admin   *)
(*               API, so an effect on the queue is a forwarded request)    *)
(*   conf      : what the server was started with: "all" | "nocfg" (empty   *)
(*               --config) | "nopid" (empty --pid-file) | "nodb" (empty    *)
(*               --db).  With nothing configured no path is the configured *)
(*               one: every supplied path / pid_file is "foreign".         *)
(*   wire      : "object" | "absent" (no arguments member) | "nonobject"   *)
(*               (arguments is not a JSON object: a malformed request)     *)
(*   valid     : the arguments are the valid minimal ones, so a call that  *)
(*               passes the gate must succeed                              *)
(***************************************************************************)
PathClasses == {"none", "configured", "alias", "foreign", "badtype"}
Modes       == {"none", "default", "preview_only", "write_only", "write_and_reload", "other"}

BaseLab(t, actor) ==
  [path  |-> IF t \in PathTools THEN "configured" ELSE "none",
   pid   |-> IF t \in PidTools THEN "configured" ELSE "none",
   extra |-> FALSE,
   actor |-> EffActor(t, actor),
   mode  |-> IF t = "config_apply" THEN "write_only" ELSE IF t \in ConfigLifecycleTools THEN "default" ELSE "none",
   wire  |-> "object",
   backend |-> "sqlite",
   conf  |-> "all",
   valid |-> TRUE]

\* no arguments at all: every documented default applies
NoArgsLab(t, w) ==
  [path |-> "none", pid |-> "none", extra |-> FALSE, actor |-> "absent",
   mode |-> IF t = "config_apply" THEN "preview_only" ELSE IF t \in ConfigLifecycleTools THEN "default" ELSE "none",
   wire |-> w, backend |-> "sqlite", conf |-> "all", valid |-> FALSE]

\* near misses of the configured path: another letter case of the file or directory name is another file on a
\* case-sensitive file system; "/./", "//" and "dir/../dir" are other spellings of the same file
PathShapes  == {"path_case_base", "path_case_dir", "path_dot", "path_trailing_slash", "path_double_slash",
                "path_absent", "path_foreign", "path_dotdot_foreign", "path_symlink_foreign", "path_dirlink_dotdot",
                "path_relative", "path_alias_dotdot", "path_alias_symlink", "path_badtype"}
PidShapes   == {"pid_absent", "pid_foreign", "pid_alias_dotdot", "pid_badtype", "pid_case_base", "pid_dot"}
ActorShapes == {"actor_case", "actor_suffix"}
ApplyShapes == {"content_noparse_preview", "content_noparse_write", "content_noparse_reload",
                "content_nocompile_preview", "content_nocompile_write", "content_nocompile_reload",
                "content_valid_preview", "content_valid_reload_up", "content_valid_reload_down",
                "content_badtype", "mode_bogus"}
UpsertShapes == {"mode_preview", "mode_reload_up", "mode_reload_down"}
WireShapes  == {"args_absent", "args_nonobject"}
ProxyShapes == {"proxy_minimal", "proxy_actor"}
\* servers started without a config path / pid file / db path ("touch only the configured config path": with nothing
\* configured nothing may be adopted from the caller)
NoCfgShapes == {"nocfg_path_scratch", "nocfg_path_foreign", "nocfg_path_newdir", "nocfg_path_absent"}
NoPidShapes == {"nopid_pid_scratch", "nopid_pid_foreign", "nopid_pid_absent"}
NoDbShapes  == {"nodb_minimal"}
Shapes == {"minimal", "extra_key", "wrongtype"} \cup WireShapes \cup ProxyShapes \cup NoCfgShapes \cup NoPidShapes \cup NoDbShapes \cup PathShapes \cup PidShapes \cup ActorShapes \cup ApplyShapes \cup UpsertShapes

ShapeApplies(t, s) ==
  CASE s = "minimal"       -> TRUE
    [] s = "extra_key"     -> t \in AllTools
    [] s = "wrongtype"     -> t \in MutatingTools
    [] s \in WireShapes   -> t \in AllTools
    [] s = "proxy_minimal" -> t \in ProxyTools
    [] s = "proxy_actor"   -> t \in QueueMutationTools
    [] s \in NoCfgShapes  -> t \in PathTools
    [] s \in NoPidShapes  -> t \in PidTools
    [] s \in NoDbShapes   -> t \in ProxyTools
    [] s \in PathShapes    -> t \in PathTools
    [] s \in PidShapes     -> t \in PidTools
    [] s \in ActorShapes   -> t \in ActorTools
    [] s \in ApplyShapes   -> t = "config_apply"
    [] s \in UpsertShapes  -> t \in {"management_endpoint_upsert", "management_endpoint_delete"}
    [] OTHER               -> FALSE

ShapeLab(t, actor, s) ==
  LET b == BaseLab(t, actor) IN
  CASE s = "minimal"      -> b
    [] s = "extra_key"    -> [b EXCEPT !.extra = TRUE, !.valid = FALSE]
    [] s = "wrongtype"    -> [b EXCEPT !.valid = FALSE, !.mode = IF t = "config_apply" THEN "other" ELSE b.mode]
    [] s = "args_absent"    -> NoArgsLab(t, "absent")
    [] s = "args_nonobject" -> NoArgsLab(t, "nonobject")
    [] s = "proxy_minimal"  -> [b EXCEPT !.backend = "proxy"]
    [] s = "proxy_actor"    -> [b EXCEPT !.backend = "proxy", !.actor = "different", !.valid = FALSE]
    [] s \in {"nocfg_path_scratch", "nocfg_path_foreign", "nocfg_path_newdir"}
                            -> [b EXCEPT !.conf = "nocfg", !.path = "foreign", !.valid = FALSE]
    [] s = "nocfg_path_absent" -> [b EXCEPT !.conf = "nocfg", !.path = "none", !.valid = FALSE]
    [] s \in {"nopid_pid_scratch", "nopid_pid_foreign"}
                            -> [b EXCEPT !.conf = "nopid", !.pid = "foreign", !.valid = FALSE]
    [] s = "nopid_pid_absent"  -> [b EXCEPT !.conf = "nopid", !.pid = "none", !.valid = FALSE]
    [] s = "nodb_minimal"      -> [b EXCEPT !.conf = "nodb", !.valid = FALSE]
    [] s = "path_absent"  -> [b EXCEPT !.path = "none"]
    [] s \in {"path_foreign", "path_dotdot_foreign", "path_symlink_foreign", "path_dirlink_dotdot", "path_relative",
               "path_case_base", "path_case_dir", "path_trailing_slash"}   \* "file/" does not resolve at all
                          -> [b EXCEPT !.path = "foreign", !.valid = FALSE]
    [] s \in {"path_alias_dotdot", "path_alias_symlink", "path_dot", "path_double_slash"}
                          -> [b EXCEPT !.path = "alias", !.valid = FALSE]
    [] s = "path_badtype" -> [b EXCEPT !.path = "badtype", !.valid = FALSE]
    [] s = "pid_absent"   -> [b EXCEPT !.pid = "none"]
    [] s \in {"pid_foreign", "pid_case_base"} -> [b EXCEPT !.pid = "foreign", !.valid = FALSE]
    [] s \in {"pid_alias_dotdot", "pid_dot"}   -> [b EXCEPT !.pid = "alias", !.valid = FALSE]
    [] s = "pid_badtype"  -> [b EXCEPT !.pid = "badtype", !.valid = FALSE]
    [] s \in ActorShapes  -> [b EXCEPT !.actor = "different", !.valid = FALSE]
    [] s \in {"content_noparse_preview", "content_nocompile_preview"}
                          -> [b EXCEPT !.mode = "preview_only", !.valid = FALSE]
    [] s \in {"content_noparse_write", "content_nocompile_write"}
                          -> [b EXCEPT !.mode = "write_only", !.valid = FALSE]
    [] s \in {"content_noparse_reload", "content_nocompile_reload", "content_valid_reload_down"}
                          -> [b EXCEPT !.mode = "write_and_reload", !.valid = FALSE]
    [] s = "content_valid_preview"   -> [b EXCEPT !.mode = "preview_only"]
    [] s = "content_valid_reload_up" -> [b EXCEPT !.mode = "write_and_reload"]
    [] s = "content_badtype" -> [b EXCEPT !.valid = FALSE]
    [] s = "mode_bogus"      -> [b EXCEPT !.mode = "other", !.valid = FALSE]
    [] s = "mode_preview"    -> [b EXCEPT !.mode = "preview_only"]
    [] s = "mode_reload_up"  -> [b EXCEPT !.mode = "write_and_reload"]
    [] s = "mode_reload_down" -> [b EXCEPT !.mode = "write_and_reload", !.valid = FALSE]
    [] OTHER -> b

(***************************************************************************)
(* Outcome of a call r = [tool, role, mut, rc, principal, actor, shape,    *)
(* lab]: must it be refused, must it succeed, or is either acceptable.     *)
(***************************************************************************)
\* Spelling of the tool NAME on the wire.  r.tool is the tool whose arguments the call carries; the name sent is
\* r.tool itself ("exact") or a near miss of it: padded with white space, or in another letter case.  A name that is
\* not exactly an advertised tool name is not a tool: whatever the role and the flags, nothing may run.
Spellings == {"exact", "trail_space", "lead_space", "trail_tab", "trail_newline", "upper"}
NotATool  == "(not a tool)"
WireTool(r) == IF r.spell = "exact" THEN r.tool ELSE NotATool

GateR(r) == Gate(WireTool(r), r.role, r.mut, r.rc, r.principal)

\* "path ... must match the configured --config path", "only configured --pid-file is accepted": any other spelling is
\* refused, also one that names the same file ("alias"); surrounding white space is trimmed from every string argument
\* and such a path counts as the configured one
Refuse(r) ==
  LET t == WireTool(r) IN
  \/ ~GateR(r)
  \/ (t \in MutatingTools /\ r.lab.actor = "different")
  \/ (t \in PathTools /\ r.lab.path \in {"foreign", "alias"})
  \/ (t \in PidTools /\ r.lab.pid \in {"foreign", "alias"})
  \/ (t \in StrictTools /\ r.lab.extra)
  \/ r.lab.wire = "nonobject"                         \* not a well-formed tools/call at all

ExpectObs(r) == IF Refuse(r) THEN "refused" ELSE IF r.lab.valid THEN "ok" ELSE "any"

\* the effect an allowed minimal call must show (used for non-vacuity accounting only)
EffectKind(t) ==
  CASE t \in QueueMutationTools   -> "db"
    [] t \in ConfigLifecycleTools -> "cfg"
    [] t = "instance_start"       -> "spawn"
    [] t = "instance_stop"        -> "stop"
    [] t = "instance_reload"      -> "hup"
    [] OTHER                      -> "output"
=============================================================================
