----------------------------- MODULE QueueTrace -----------------------------
(***************************************************************************)
(* Trace validation of the real stores against Queue.tla ("follow mode").  *)
(* The trace is a concatenation of behaviours, each started by a Reset     *)
(* event carrying the configuration.  Every event carries the arguments,   *)
(* the complete result, and the complete abstract state after the call     *)
(* (message table, volatile throttle state).  For every event the spec     *)
(* computes the admissible outcomes from the PREVIOUS logged state and     *)
(* requires the logged result and logged post-state to be one of them.     *)
(* A failed requirement prints <<"FAIL", line, event, check>> and the      *)
(* state then follows the log, so one divergence does not hide the rest    *)
(* of the trace.  The run is accepted iff every line was consumed and no   *)
(* FAIL was printed.                                                       *)
(***************************************************************************)
EXTENDS Queue, Json

CONSTANT TraceFile
Trace == ndJsonDeserialize(TraceFile)

VARIABLES l,       \* next trace line
          C,       \* configuration of the current behaviour
          S,       \* abstract store state (Queue.tla)
          rank,    \* lexicographic rank of the ids of S.msgs
          issued   \* lease ids issued so far in this behaviour
vars == <<l, C, S, rank, issued>>

Chk(name, b) == IF b THEN TRUE ELSE PrintT(<<"FAIL", l, Trace[l].ev, name>>)

EmptyS == [msgs |-> <<>>, ord |-> <<>>, oc |-> 0, lp |-> 0, ls |-> 0, psel |-> {}]
NoCfg  == [backend |-> "none"]

CfgOf(c) == [backend |-> c.backend, maxDepth |-> c.maxDepth, drop |-> c.drop, retMaxAge |-> c.retMaxAge,
             pruneInt |-> c.pruneInt, delivMaxAge |-> c.delivMaxAge, dlqMaxAge |-> c.dlqMaxAge,
             dlqMaxDepth |-> c.dlqMaxDepth, sweepGran |-> c.sweepGran, pressItems |-> c.pressItems,
             pressure |-> c.pressure, delivGuard |-> c.delivGuard, dev |-> SeqRange(c.dev)]

Init == l = 1 /\ C = NoCfg /\ S = EmptyS /\ rank = <<>> /\ issued = {}

IsEvent(name) == l <= Len(Trace) /\ Trace[l].ev = name /\ l' = l + 1

\* the state follows the log; newIds = sequence of ids inserted by this step
Follow(e, newIds) ==
  /\ S' = [msgs |-> e.post,
           ord  |-> [i \in DOMAIN e.post |->
                       IF \E k \in DOMAIN newIds : newIds[k] = i
                       THEN S.oc + (CHOOSE k \in DOMAIN newIds : newIds[k] = i)
                       ELSE IF i \in DOMAIN S.ord THEN S.ord[i] ELSE 0],
           oc   |-> S.oc + Len(newIds),
           lp   |-> e.vol.lp, ls |-> e.vol.ls,
           psel |-> S.psel]      \* selection of a by-filter mutation that is between its two steps
  /\ rank' = e.rank

Generic(e, cls, newIds) ==
  /\ Chk("storeok", StoreOK(e.post))
  /\ Chk("steplegal", StepLegal(cls, S.msgs, e.post, SeqRange(newIds), e.now))

ItemEq(it, m, inc) ==
  /\ it.st = m.st /\ it.rt = m.rt /\ it.tg = m.tg /\ it.recv = m.recv /\ it.att = m.att /\ it.next = m.next
  /\ it.dr = m.dr
  /\ it.pl = (IF inc THEN m.pl ELSE "") /\ it.hd = (IF inc THEN m.hd ELSE "") /\ it.tr = (IF inc THEN m.tr ELSE "")

BagEq(s1, s2) ==
  /\ Len(s1) = Len(s2)
  /\ \A x \in SeqRange(s1) \cup SeqRange(s2) :
        Cardinality({k \in DOMAIN s1 : s1[k] = x}) = Cardinality({k \in DOMAIN s2 : s2[k] = x})

TraceReset ==
  /\ IsEvent("Reset")
  /\ C' = CfgOf(Trace[l].cfg)
  /\ S' = EmptyS /\ rank' = <<>> /\ issued' = {}

TraceTick ==
  /\ IsEvent("Tick")
  /\ LET e == Trace[l]
     IN /\ Chk("post", e.post = S.msgs)
        /\ Chk("vol", e.vol.lp = S.lp /\ e.vol.ls = S.ls)
        /\ Follow(e, <<>>)
  /\ UNCHANGED <<C, issued>>

\* the store is closed and opened again on the same database (a restart): every message is exactly as it was -
\* in particular a lease that has not run out is still held - and the volatile throttles start afresh
TraceReopen ==
  /\ IsEvent("Reopen")
  /\ LET e == Trace[l]
     IN /\ Chk("err", e.r.err = "")
        /\ Chk("post", e.post = S.msgs)
        /\ Chk("vol", e.vol.lp = 0 /\ e.vol.ls = 0)
        /\ Generic(e, "read", <<>>)
        /\ Follow(e, <<>>)
  /\ UNCHANGED <<C, issued>>

TraceEnqueue ==
  /\ (IsEvent("Enqueue") \/ IsEvent("EnqueueBatch"))
  /\ LET e      == Trace[l]
         single == e.ev = "Enqueue"
         envs   == e.a.envs
         named  == {envs[k].id : k \in DOMAIN envs} \ {""}
         fresh  == (DOMAIN e.post \ DOMAIN S.msgs) \ named
         blanks == {k \in DOMAIN envs : envs[k].id = ""}
         nid    == IF Cardinality(fresh) = 1 THEN CHOOSE x \in fresh : TRUE ELSE "?new"
         envsR  == [k \in DOMAIN envs |-> IF envs[k].id = "" THEN [envs[k] EXCEPT !.id = nid] ELSE envs[k]]
         outs   == EnqueueOutcomes(C, S, envsR, e.now, single)
         newIds == IF e.r.err = "" THEN [k \in DOMAIN envsR |-> envsR[k].id] ELSE <<>>
     IN /\ Chk("oneblank", Cardinality(blanks) <= 1)
        /\ Chk("err", \E o \in outs : o.err = e.r.err)
        /\ Chk("post", \E o \in outs : o.err = e.r.err /\ o.S.msgs = e.post)
        /\ Chk("vol", \E o \in outs : o.err = e.r.err /\ o.S.msgs = e.post /\ o.S.lp = e.vol.lp /\ S.ls = e.vol.ls)
        /\ Chk("count", single \/ e.r.n = (IF e.r.err = "" THEN Len(envs) ELSE 0))
        /\ Generic(e, "enqueue", newIds)
        /\ Follow(e, newIds)
  /\ UNCHANGED <<C, issued>>

TraceDequeue ==
  /\ IsEvent("Dequeue")
  /\ LET e       == Trace[l]
         items   == e.r.items
         got     == {items[k].id : k \in DOMAIN items}
         leaseOf == [i \in got |-> items[CHOOSE k \in DOMAIN items : items[k].id = i].lease]
         leases  == {items[k].lease : k \in DOMAIN items}
         pres    == DeqPre(C, S, e.now)
         ttl     == EffTTL(e.a.ttl)
         adm(p)  == DeqAdmissible(p, e.a.rt, e.a.tg, e.a.batch, e.now, got)
     IN /\ Chk("err", e.r.err = "")
        /\ Chk("nodup", Cardinality(got) = Len(items) /\ Cardinality(leases) = Len(items))
        /\ Chk("fresh", leases \cap issued = {} /\ "" \notin leases)
        /\ Chk("admissible", \E p \in pres : adm(p))
        /\ Chk("post", \E p \in pres : adm(p) /\ DeqApply(S, p, got, leaseOf, e.now, ttl).msgs = e.post)
        /\ Chk("vol", \E p \in pres : p.lp = e.vol.lp /\ p.ls = e.vol.ls)
        /\ Chk("items", \A k \in DOMAIN items :
                           /\ items[k].id \in DOMAIN e.post
                           /\ ItemEq(items[k], e.post[items[k].id], TRUE)
                           /\ items[k].lease = e.post[items[k].id].lease
                           /\ items[k].until = e.post[items[k].id].until
                           /\ items[k].until = e.now + ttl
                           /\ items[k].st = "leased")
        /\ Generic(e, "dequeue", <<>>)
        /\ issued' = issued \cup leases
        /\ Follow(e, <<>>)
  /\ UNCHANGED C

TraceLeaseOp ==
  /\ IsEvent("LeaseOp")
  /\ LET e    == Trace[l]
         kind == e.a.kind
         lid  == e.a.lid         \* the lease id is trimmed before it is looked up
         arg  == IF kind = "dead" THEN e.a.argn ELSE e.a.arg   \* a blank reason is no reason
         r    == LeaseOp(C, S.msgs, kind, lid, arg, e.now)
     IN /\ Chk("err", r.err = e.r.err)
        /\ Chk("post", r.msgs = e.post)
        /\ Chk("vol", e.vol.lp = S.lp /\ e.vol.ls = S.ls)
        /\ Generic(e, "lease", <<>>)
        /\ Follow(e, <<>>)
  /\ UNCHANGED <<C, issued>>

TraceLeaseBatch ==
  /\ IsEvent("LeaseBatch")
  /\ LET e    == Trace[l]
         kind == e.a.kind
         arg  == IF kind = "dead" THEN e.a.argn ELSE e.a.arg
         r    == LeaseBatch(C, S.msgs, kind, e.a.lids, arg, e.now)
     IN /\ Chk("err", e.r.err = "")
        /\ Chk("ok", r.ok = e.r.ok)
        /\ Chk("notfound", BagEq(r.nf, e.r.nf))
        /\ Chk("expired", BagEq(r.ex, e.r.ex))
        /\ Chk("post", r.msgs = e.post)
        /\ Chk("vol", e.vol.lp = S.lp /\ e.vol.ls = S.ls)
        /\ Generic(e, "lease", <<>>)
        /\ Follow(e, <<>>)
  /\ UNCHANGED <<C, issued>>

TraceMutateIds ==
  /\ IsEvent("MutateIds")
  /\ LET e == Trace[l]
         r == MutateIds(S.msgs, e.a.op, SeqRange(e.a.nids), e.now)
     IN /\ Chk("err", e.r.err = "")
        /\ Chk("count", e.r.n = r.n /\ e.r.matched = r.n)
        /\ Chk("post", r.msgs = e.post)
        /\ Chk("vol", e.vol.lp = S.lp /\ e.vol.ls = S.ls)
        /\ Generic(e, e.a.op, <<>>)
        /\ Follow(e, <<>>)
  /\ UNCHANGED <<C, issued>>

\* Two handles on one database: an operator mutation by ids through a second handle and a batch lease operation through
\* the main one, started together behind a held write lock and committed in the order the database grants.  The pair must
\* behave like the two calls made one after the other in SOME order: results and final table are those of one of the two
\* sequential executions - in particular a lease the operator's commit has voided is a conflict.
HandleRaceSeq(e, opFirst) ==
  LET f   == e.a.first
      s   == e.a.second
      arg == IF s.kind = "dead" THEN s.argn ELSE s.arg
      m1  == IF opFirst THEN MutateIds(S.msgs, f.op, SeqRange(f.nids), e.now) ELSE [msgs |-> S.msgs, n |-> 0]
      b   == LeaseBatch(C, m1.msgs, s.kind, s.lids, arg, e.now)
      m2  == IF opFirst THEN m1 ELSE MutateIds(b.msgs, f.op, SeqRange(f.nids), e.now)
  IN /\ e.r.first.n = m2.n
     /\ b.ok = e.r.second.ok /\ BagEq(b.nf, e.r.second.nf) /\ BagEq(b.ex, e.r.second.ex)
     /\ (IF opFirst THEN b.msgs ELSE m2.msgs) = e.post

TraceHandleRace ==
  /\ IsEvent("HandleRace")
  /\ LET e == Trace[l]
     IN /\ Chk("operator_err", e.r.first.err = "")
        /\ Chk("lease_err", e.r.second.err = "")
        /\ Chk("serializable", HandleRaceSeq(e, TRUE) \/ HandleRaceSeq(e, FALSE))
        /\ Chk("vol", e.vol.lp = S.lp /\ e.vol.ls = S.ls)
        /\ Chk("storeok", StoreOK(e.post))
        /\ Follow(e, <<>>)
  /\ UNCHANGED <<C, issued>>

\* Two consumers, one per handle on the same database, poll at the same instant.  Lease exclusivity across handles: the two
\* answers share no message and no lease id, every message handed out was ready (after the prune / sweep either handle may
\* run; a fresh handle's throttles are zero), and it is held afterwards under exactly the lease id its consumer was given.
TraceHandleDeq ==
  /\ IsEvent("HandleDeq")
  /\ LET e   == Trace[l]
         a1  == e.a.first
         a2  == e.a.second
         i1  == e.r.first.items
         i2  == e.r.second.items
         g1  == {i1[k].id : k \in DOMAIN i1}
         g2  == {i2[k].id : k \in DOMAIN i2}
         l1  == {i1[k].lease : k \in DOMAIN i1}
         l2  == {i2[k].lease : k \in DOMAIN i2}
         pres == DeqPre(C, S, e.now) \cup DeqPre(C, [S EXCEPT !.ls = 0, !.lp = 0], e.now)
         held(it, ttl) == /\ it.id \in DOMAIN e.post
                          /\ e.post[it.id].st = "leased" /\ e.post[it.id].lease = it.lease
                          /\ e.post[it.id].until = e.now + EffTTL(ttl) /\ it.until = e.post[it.id].until
     IN /\ Chk("err", e.r.first.err = "" /\ e.r.second.err = "")
        /\ Chk("exclusive", g1 \cap g2 = {} /\ Cardinality(g1) = Len(i1) /\ Cardinality(g2) = Len(i2))
        /\ Chk("fresh", /\ (l1 \cup l2) \cap issued = {} /\ l1 \cap l2 = {} /\ "" \notin (l1 \cup l2)
                        /\ Cardinality(l1) = Len(i1) /\ Cardinality(l2) = Len(i2))
        /\ Chk("ready", \E p \in pres : /\ g1 \subseteq Ready(p.msgs, a1.rt, a1.tg, e.now)
                                         /\ g2 \subseteq Ready(p.msgs, a2.rt, a2.tg, e.now))
        /\ Chk("batch", Len(i1) <= EffBatch(a1.batch) /\ Len(i2) <= EffBatch(a2.batch))
        /\ Chk("holder", (\A k \in DOMAIN i1 : held(i1[k], a1.ttl)) /\ (\A k \in DOMAIN i2 : held(i2[k], a2.ttl)))
        /\ Generic(e, "dequeue", <<>>)
        /\ issued' = issued \cup l1 \cup l2
        /\ Follow(e, <<>>)
  /\ UNCHANGED C

TraceMutateFilter ==
  /\ IsEvent("MutateFilter")
  /\ LET e    == Trace[l]
         M    == S.msgs
         cand == FilterCand(M, e.a.op, e.a.f)
         lim  == EffLimit(e.a.f.limit)
         k    == Min2(lim, Cardinality(cand))
         \* the selection is observable: every selected message changes state
         obs  == {i \in DOMAIN M : i \notin DOMAIN e.post \/ e.post[i] # M[i]}
         sel  == IF k = Cardinality(cand) THEN cand ELSE obs
         r    == MutateIds(M, e.a.op, sel, e.now)
     IN /\ Chk("err", e.r.err = "")
        /\ Chk("matched", e.r.matched = k)
        /\ Chk("previewflag", e.r.preview = e.a.preview)
        /\ IF e.a.preview
           THEN /\ Chk("count", e.r.n = 0)
                /\ Chk("post", e.post = M)
           ELSE /\ Chk("select", IsTopK(M, rank, cand, sel, lim, TRUE))
                /\ Chk("count", e.r.n = r.n)
                /\ Chk("post", r.msgs = e.post)
        /\ Chk("vol", e.vol.lp = S.lp /\ e.vol.ls = S.ls)
        /\ Generic(e, e.a.op, <<>>)
        /\ Follow(e, <<>>)
  /\ UNCHANGED <<C, issued>>

(***************************************************************************)
(* A by-filter mutation of the SQLite store is two atomic steps - select   *)
(* the ids (FilterSelect), then mutate them by id with the state guard     *)
(* (FilterApply) - and other operations can run in between (the harness    *)
(* pauses the real call at the hook between the two statements).  What the *)
(* second step may touch: exactly the selected messages that are STILL in  *)
(* a state the operation is defined for.                                   *)
(***************************************************************************)
TraceFilterSelect ==
  /\ IsEvent("FilterSelect")
  /\ LET e == Trace[l]
     IN /\ Chk("post", e.post = S.msgs)
        /\ S' = [S EXCEPT !.psel = Select(S.msgs, rank, e.a.op, e.a.f)]
        /\ rank' = e.rank
  /\ UNCHANGED <<C, issued>>

TraceFilterApply ==
  /\ IsEvent("FilterApply")
  /\ LET e == Trace[l]
         r == MutateIds(S.msgs, e.a.op, S.psel, e.now)
     IN /\ Chk("err", e.r.err = "")
        /\ Chk("matched", e.r.matched = Cardinality(S.psel))
        /\ Chk("count", e.r.n = r.n)
        /\ Chk("post", r.msgs = e.post)
        /\ Generic(e, e.a.op, <<>>)
        /\ Follow(e, <<>>)
  /\ UNCHANGED <<C, issued>>

\* reads that run the prune step first
PruneStep(e) ==
  LET pres == PruneOutcomes(C, S.msgs, S.lp, e.now)
  IN /\ Chk("post", \E p \in pres : p.msgs = e.post)
     /\ Chk("vol", \E p \in pres : p.msgs = e.post /\ p.lp = e.vol.lp /\ S.ls = e.vol.ls)

TraceListMessages ==
  /\ IsEvent("ListMessages")
  /\ LET e     == Trace[l]
         M     == e.post
         items == e.r.items
         ids   == [k \in DOMAIN items |-> items[k].id]
         valid == e.a.order \in {"asc", "desc"}
         desc  == e.a.order = "desc"
     IN /\ PruneStep(e)
        /\ IF ~valid THEN Chk("err", e.r.err = "badorder" /\ Len(items) = 0)
           ELSE /\ Chk("err", e.r.err = "")
                /\ Chk("set", /\ Cardinality(SeqRange(ids)) = Len(ids)
                              /\ IsTopK(M, e.rank, {i \in DOMAIN M : Matches(M[i], e.a.f)}, SeqRange(ids), EffLimit(e.a.f.limit), desc))
                /\ Chk("order", SeqRange(ids) \subseteq DOMAIN M /\ OrderedBy(M, e.rank, ids, desc, TRUE))
                /\ Chk("fields", \A k \in DOMAIN items : items[k].id \in DOMAIN M /\ ItemEq(items[k], M[items[k].id], e.a.inc))
        /\ Generic(e, "read", <<>>)
        /\ Follow(e, <<>>)
  /\ UNCHANGED <<C, issued>>

TraceListDead ==
  /\ IsEvent("ListDead")
  /\ LET e     == Trace[l]
         M     == e.post
         items == e.r.items
         ids   == [k \in DOMAIN items |-> items[k].id]
         got   == SeqRange(ids)
         cand  == {i \in DOMAIN M : Matches(M[i], e.a.f)}
     IN /\ PruneStep(e)
        /\ Chk("err", e.r.err = "")
        /\ Chk("set", /\ got \subseteq cand /\ Cardinality(got) = Len(ids)
                      /\ Len(ids) = Min2(EffLimit(e.a.f.limit), Cardinality(cand))
                      /\ \A a \in got, b \in cand \ got : M[a].recv >= M[b].recv)
        /\ Chk("order", got \subseteq DOMAIN M /\ OrderedBy(M, e.rank, ids, TRUE, FALSE))
        /\ Chk("fields", \A k \in DOMAIN items : items[k].id \in DOMAIN M /\ ItemEq(items[k], M[items[k].id], e.a.inc))
        /\ Generic(e, "read", <<>>)
        /\ Follow(e, <<>>)
  /\ UNCHANGED <<C, issued>>

TraceLookup ==
  /\ IsEvent("Lookup")
  /\ LET e     == Trace[l]
         items == e.r.items
         want  == SelectSeq(e.a.nids, LAMBDA i : i \in DOMAIN S.msgs)
     IN /\ Chk("err", e.r.err = "")
        /\ Chk("post", e.post = S.msgs)
        /\ Chk("items", /\ Len(items) = Len(want)
                        /\ \A k \in DOMAIN items :
                              /\ k \in DOMAIN want /\ items[k].id = want[k]
                              /\ items[k].rt = S.msgs[want[k]].rt /\ items[k].st = S.msgs[want[k]].st)
        /\ Chk("vol", e.vol.lp = S.lp /\ e.vol.ls = S.ls)
        /\ Generic(e, "read", <<>>)
        /\ Follow(e, <<>>)
  /\ UNCHANGED <<C, issued>>

MinOr0(X) == IF X = {} THEN 0 ELSE CHOOSE x \in X : \A y \in X : x <= y

TraceStats ==
  /\ IsEvent("Stats")
  /\ LET e == Trace[l]
         M == e.post
         Q == IdsIn(M, {"queued"})
     IN /\ PruneStep(e)
        /\ Chk("err", e.r.err = "")
        /\ Chk("counts", /\ e.r.total = Cardinality(DOMAIN M) /\ e.r.extra = 0
                         /\ \A s \in States : e.r.by[s] = CountBy(M)[s])
        /\ Chk("oldest", e.r.oldest = MinOr0({M[i].recv : i \in Q}) /\ e.r.earliest = MinOr0({M[i].next : i \in Q}))
        /\ Chk("age", /\ e.r.age = (IF Q = {} THEN 0 ELSE Max2(0, e.now - e.r.oldest))
                      /\ e.r.lag = (IF Q = {} THEN 0 ELSE Max2(0, e.now - e.r.earliest)))
        /\ Generic(e, "read", <<>>)
        /\ Follow(e, <<>>)
  /\ UNCHANGED <<C, issued>>

Next ==
  \/ TraceReset \/ TraceTick \/ TraceReopen \/ TraceEnqueue \/ TraceDequeue \/ TraceLeaseOp \/ TraceLeaseBatch
  \/ TraceMutateIds \/ TraceHandleRace \/ TraceHandleDeq \/ TraceMutateFilter \/ TraceFilterSelect \/ TraceFilterApply \/ TraceListMessages \/ TraceListDead \/ TraceLookup \/ TraceStats

Spec == Init /\ [][Next]_vars

\* every line consumed: one state per line plus the initial state
TraceAccepted ==
  LET d == TLCGet("stats").diameter
  IN IF d - 1 = Len(Trace) THEN TRUE
     ELSE PrintT(<<"REJECTED", "matched", d - 1, "of", Len(Trace)>>) /\ FALSE
=============================================================================
