------------------------------ MODULE QueueLive ------------------------------
(***************************************************************************)
(* Liveness of redelivery (C05) on the store contract: under weak fairness *)
(* of the consumer's Dequeue and of the clock, every stored message is     *)
(* offered again and again until it is settled - whatever the consumer     *)
(* does with its leases (abandon them, nack with a delay, extend).         *)
(* Finite BY CONSTRUCTION: every message has a budget of MaxEp lease       *)
(* epochs (the consumer acks in its last epoch), one nack delay and one    *)
(* extension per epoch are possible, and Horizon is larger than the sum of *)
(* all TTLs, extensions and delays, so the clock can always reach the next *)
(* due instant.  No state constraint is used.                              *)
(***************************************************************************)
EXTENDS Queue

CONSTANTS Ids, Cfg, MaxEp, TTL, Ext, Delay, Step, Horizon

VARIABLES S, now, ep, ext, offered
vars == <<S, now, ep, ext, offered>>

T0 == 1000
LeaseId(m, e) == m \o "#" \o ToString(e)
Env(i) == [id |-> i, rt |-> "/r1", tg |-> "t1", recv |-> 0, next |-> 0, att |-> 0, pl |-> "p", hd |-> "", tr |-> ""]

Init ==
  /\ S = [msgs |-> [i \in Ids |-> NewMsg(Env(i), T0)], ord |-> [i \in Ids |-> 1], oc |-> Cardinality(Ids), lp |-> 0, ls |-> 0]
  /\ now = T0
  /\ ep = [i \in Ids |-> 0]
  /\ ext = [i \in Ids |-> FALSE]
  /\ offered = {}

\* the consumer asks for everything that is ready
Deq ==
  \E p \in DeqPre(Cfg, S, now) :
    LET rdy == Ready(p.msgs, "", "", now)
        got == rdy
        leaseOf == [i \in got |-> LeaseId(i, ep[i] + 1)]
    IN /\ S' = DeqApply(S, p, got, leaseOf, now, TTL)
       /\ ep' = [i \in Ids |-> IF i \in got THEN ep[i] + 1 ELSE ep[i]]
       /\ ext' = [i \in Ids |-> IF i \in got THEN FALSE ELSE ext[i]]
       /\ offered' = got
       /\ UNCHANGED now

Leased(i) == i \in DOMAIN S.msgs /\ S.msgs[i].st = "leased"

\* in its last epoch the consumer settles the message
AckLast(i) ==
  /\ Leased(i) /\ ep[i] = MaxEp
  /\ LET r == LeaseOp(Cfg, S.msgs, "ack", S.msgs[i].lease, 0, now)
     IN /\ r.err = ""
        /\ S' = [S EXCEPT !.msgs = r.msgs, !.ord = Keep(S.ord, DOMAIN r.msgs)]
  /\ offered' = {} /\ UNCHANGED <<now, ep, ext>>

Nack(i) ==
  /\ Leased(i) /\ ep[i] < MaxEp
  /\ \E d \in {0, Delay} :
       LET r == LeaseOp(Cfg, S.msgs, "nack", S.msgs[i].lease, d, now)
       IN S' = [S EXCEPT !.msgs = r.msgs]
  /\ offered' = {} /\ UNCHANGED <<now, ep, ext>>

Extend(i) ==
  /\ Leased(i) /\ ~ext[i]
  /\ LET r == LeaseOp(Cfg, S.msgs, "extend", S.msgs[i].lease, Ext, now)
     IN S' = [S EXCEPT !.msgs = r.msgs]
  /\ ext' = [ext EXCEPT ![i] = TRUE]
  /\ offered' = {} /\ UNCHANGED <<now, ep>>

\* in the last epoch the lease must not be lost (the model's consumer acks in time)
\* would a dequeue at this instant return something (sweep throttle included)?
DeqWouldReturn == \E p \in DeqPre(Cfg, S, now) : Ready(p.msgs, "", "", now) # {}

\* time passes only while nothing is waiting to be dequeued (the consumer polls
\* faster than the clock steps); so the time consumed is bounded by the budgets
Tick ==
  /\ now + Step <= T0 + Horizon
  /\ ~DeqWouldReturn
  /\ \A i \in Ids : (Leased(i) /\ ep[i] = MaxEp) => now + Step < S.msgs[i].until
  /\ now' = now + Step
  /\ offered' = {} /\ UNCHANGED <<S, ep, ext>>

Next == Deq \/ Tick \/ \E i \in Ids : AckLast(i) \/ Nack(i) \/ Extend(i)

Spec == Init /\ [][Next]_vars /\ WF_vars(Deq) /\ WF_vars(Tick) /\ \A i \in Ids : WF_vars(AckLast(i))

\* every stored, unsettled message is eventually offered (returned by a dequeue) or settled
EventuallyOffered ==
  \A i \in Ids : []((i \in DOMAIN S.msgs) => <>(i \in offered \/ i \notin DOMAIN S.msgs))
\* and, since the consumer settles in the last epoch, every message is eventually gone
EventuallySettled == \A i \in Ids : <>(i \notin DOMAIN S.msgs)
\* the horizon is never the reason for being stuck: some message remains => the clock has not run out
HorizonNotBinding == (DOMAIN S.msgs # {} /\ ~DeqWouldReturn) => now + Step <= T0 + Horizon
=============================================================================
