---------------------------- MODULE AdminPublish ----------------------------
(***************************************************************************)
(* C15 - Admin publish is validated and all-or-nothing.                    *)
(*                                                                         *)
(* A request is  (policy, path, scope, request-level class, items).  Every *)
(* item has an abstract kind (one deliberate property each).  The spec     *)
(* says, from the property statement and docs/admin-api.md, which items    *)
(* are offending and why (a set of reasons per item), which request-level  *)
(* problems exist, and therefore whether the batch is stored as a whole or *)
(* refused as a whole, and which (status, code, item_index) answers are    *)
(* admissible.  It does not model the order of the code's checks.          *)
(*                                                                         *)
(* Reading of "naming the first offending item" (DESIGN.md C15): the       *)
(* reported index must name an offending item and must be the first item   *)
(* offending for that reason; the globally smallest index across different *)
(* reasons is not demanded.                                                *)
(***************************************************************************)
EXTENDS Naturals, Sequences, FiniteSets, TLC

\* ------------------------------------------------------------------ the generated configuration (exported to the harness)
\* mode, targets, management labels, route publish flags, limits in bytes
R(mode, tg, app, ep, pub, dir, man, mb, mh) ==
  [mode |-> mode, targets |-> tg, app |-> app, ep |-> ep, pub |-> pub, direct |-> dir, managed |-> man, mb |-> mb, mh |-> mh]

DefMaxBody    == 256
DefMaxHeaders == 128

RouteTab ==
  ("/p1"   :> R("pull",    <<"pull">>, "", "", TRUE, TRUE, TRUE, 64, 48)) @@
  ("/d1"   :> R("deliver", <<"https://t1.example.test/hook">>, "", "", TRUE, TRUE, TRUE, DefMaxBody, DefMaxHeaders)) @@
  ("/d2"   :> R("deliver", <<"https://t2a.example.test/hook", "https://t2b.example.test/hook">>, "", "", TRUE, TRUE, TRUE, DefMaxBody, DefMaxHeaders)) @@
  ("/m1"   :> R("pull",    <<"pull">>, "app1", "ep1", TRUE, TRUE, TRUE, 64, 48)) @@
  ("/m2"   :> R("deliver", <<"https://m2a.example.test/hook", "https://m2b.example.test/hook">>, "app1", "ep2", TRUE, TRUE, TRUE, DefMaxBody, DefMaxHeaders)) @@
  ("/off"  :> R("pull",    <<"pull">>, "", "", FALSE, TRUE, TRUE, DefMaxBody, DefMaxHeaders)) @@
  ("/doff" :> R("deliver", <<"https://t3.example.test/hook">>, "", "", TRUE, FALSE, TRUE, DefMaxBody, DefMaxHeaders)) @@
  ("/xoff" :> R("pull",    <<"pull">>, "", "", TRUE, TRUE, FALSE, DefMaxBody, DefMaxHeaders)) @@
  ("/moff" :> R("pull",    <<"pull">>, "app2", "ep1", TRUE, TRUE, FALSE, DefMaxBody, DefMaxHeaders)) @@
  ("/mpoff":> R("pull",    <<"pull">>, "app2", "ep2", FALSE, TRUE, TRUE, DefMaxBody, DefMaxHeaders))

RouteNames == DOMAIN RouteTab

Pol(d, m, ap, ad, ra, rr, ac) == [direct |-> d, managed |-> m, allowPull |-> ap, allowDeliver |-> ad, reqActor |-> ra, reqReqID |-> rr, actors |-> ac]

\* actors = TRUE: defaults.publish_policy has actor_allow "ci-bot" and actor_prefix "deploy-"
PolTab ==
  ("P0"           :> Pol(TRUE,  TRUE,  TRUE,  TRUE,  FALSE, FALSE, FALSE)) @@
  ("Pdirect_off"  :> Pol(FALSE, TRUE,  TRUE,  TRUE,  FALSE, FALSE, FALSE)) @@
  ("Pmanaged_off" :> Pol(TRUE,  FALSE, TRUE,  TRUE,  FALSE, FALSE, FALSE)) @@
  ("Ppull_off"    :> Pol(TRUE,  TRUE,  FALSE, TRUE,  FALSE, FALSE, FALSE)) @@
  ("Pdeliver_off" :> Pol(TRUE,  TRUE,  TRUE,  FALSE, FALSE, FALSE, FALSE)) @@
  ("Paudit"       :> Pol(TRUE,  TRUE,  TRUE,  TRUE,  TRUE,  TRUE,  FALSE)) @@
  ("Pactors"      :> Pol(TRUE,  TRUE,  TRUE,  TRUE,  FALSE, FALSE, TRUE))

Policies == DOMAIN PolTab

MaxItems == 1000

\* ------------------------------------------------------------------ request vocabulary
Scopes == {"app1/ep1", "app1/ep2", "app2/ep1", "app2/ep2", "app9/ep9"}

ScopeRoute(s) ==
  CASE s = "app1/ep1" -> "/m1" [] s = "app1/ep2" -> "/m2" [] s = "app2/ep1" -> "/moff" [] s = "app2/ep2" -> "/mpoff" [] OTHER -> ""

\* kinds usable on both paths (on the global path they address /p1)
SharedKinds == {"ok", "ok_t", "ok_full", "payload_over", "bad_b64", "headers_over", "header_bad_name", "header_bad_value",
                "bad_recv", "bad_next", "dup_prev", "dup_queue", "missing_id", "target_bad"}
GlobalOnly  == {"ok_deliver", "ok_deliver_t", "ok_xoff", "deliver_ambiguous", "unknown_route", "managed_route", "managed_selector",
                "route_off", "route_direct_off", "no_selector", "route_no_slash"}
ScopedOnly  == {"hint_route", "hint_route_other", "hint_app", "hint_app_other"}

Kinds(path) == IF path = "global" THEN SharedKinds \cup GlobalOnly ELSE SharedKinds \cup ScopedOnly

\* request-level classes: audit headers and body framing
ReqClasses == {"ok", "no_reason", "long_reason", "no_actor", "no_reqid", "actor_bad", "actor_prefixed",
               "bad_json", "no_items", "unknown_field", "trailing_doc", "huge_body"}
BodyBroken == {"bad_json", "no_items", "unknown_field", "trailing_doc", "huge_body"}

\* ------------------------------------------------------------------ what an item addresses
\* route an item ends up addressing ("" = none / not resolvable from the item)
ItemRoute(path, scope, k) ==
  IF path = "scoped" THEN ScopeRoute(scope)
  ELSE CASE k \in {"ok_deliver"}                         -> "/d1"
         [] k \in {"ok_deliver_t", "deliver_ambiguous"}  -> "/d2"
         [] k = "ok_xoff"                                -> "/xoff"
         [] k = "unknown_route"                          -> "/nope"
         [] k = "managed_route"                          -> "/m1"
         [] k = "route_off"                              -> "/off"
         [] k = "route_direct_off"                       -> "/doff"
         [] k \in {"managed_selector", "no_selector", "route_no_slash"} -> ""
         [] OTHER                                        -> "/p1"

\* target as sent: "" omitted, "t1" / "t2" = first / second target of the route, "bad" = not a target of the route
ItemTargetSpec(k) ==
  CASE k \in {"ok_t", "ok_full"} -> "t1"
    [] k = "ok_deliver_t"        -> "t2"
    [] k = "target_bad"          -> "bad"
    [] OTHER                     -> ""

Known(rt) == rt \in RouteNames

\* target the stored message must carry
StoredTarget(rt, k) ==
  LET tg == RouteTab[rt].targets
  IN CASE ItemTargetSpec(k) = "t1" -> tg[1]
       [] ItemTargetSpec(k) = "t2" -> tg[2]
       [] OTHER                    -> tg[1]

\* ------------------------------------------------------------------ offending items
\* reasons that apply to the route as such (policy and route flags)
RouteReasons(p, path, rt) ==
  LET r == RouteTab[rt] pol == PolTab[p]
  IN (IF ~r.pub THEN {"route_off"} ELSE {}) \cup
     (IF path = "global" /\ ~r.direct THEN {"route_direct_off"} ELSE {}) \cup
     (IF path = "scoped" /\ ~r.managed THEN {"route_managed_off"} ELSE {}) \cup
     (IF r.mode = "pull" /\ ~pol.allowPull THEN {"pull_off"} ELSE {}) \cup
     (IF r.mode = "deliver" /\ ~pol.allowDeliver THEN {"deliver_off"} ELSE {})

\* does item i repeat the id of an earlier item?  (dup_prev copies the id of the nearest earlier item that has one)
DupInBatch(items, i) == items[i] = "dup_prev" /\ \E j \in 1..(i - 1) : items[j] # "missing_id"

Reasons(p, path, scope, items, i) ==
  LET k  == items[i]
      rt == ItemRoute(path, scope, k)
  IN (IF k = "missing_id" THEN {"missing_id"} ELSE {}) \cup
     (IF DupInBatch(items, i) THEN {"dup_batch"} ELSE {}) \cup
     (IF k = "dup_queue" THEN {"dup_queue"} ELSE {}) \cup
     (IF k = "payload_over" THEN {"payload_over"} ELSE {}) \cup
     (IF k = "bad_b64" THEN {"bad_b64"} ELSE {}) \cup
     (IF k = "headers_over" THEN {"headers_over"} ELSE {}) \cup
     (IF k \in {"header_bad_name", "header_bad_value"} THEN {"header_invalid"} ELSE {}) \cup
     (IF k = "bad_recv" THEN {"bad_recv"} ELSE {}) \cup
     (IF k = "bad_next" THEN {"bad_next"} ELSE {}) \cup
     (IF path = "global"
      THEN (IF k = "no_selector" THEN {"no_selector"} ELSE {}) \cup
           (IF k = "route_no_slash" THEN {"route_no_slash"} ELSE {}) \cup
           (IF k = "managed_selector" THEN {"managed_selector"} ELSE {}) \cup
           (IF rt # "" /\ ~Known(rt) THEN {"unknown_route"} ELSE {}) \cup
           (IF Known(rt)
            THEN (IF RouteTab[rt].app # "" THEN {"managed_route"} ELSE {}) \cup
                 RouteReasons(p, path, rt) \cup
                 (IF ItemTargetSpec(k) = "bad" THEN {"target_bad"} ELSE {}) \cup
                 (IF ItemTargetSpec(k) = "" /\ Len(RouteTab[rt].targets) > 1 THEN {"target_ambiguous"} ELSE {})
            ELSE {})
      ELSE (IF k \in ScopedOnly THEN {"hint"} ELSE {}) \cup
           (IF Known(rt)
            THEN (IF ItemTargetSpec(k) = "bad" THEN {"target_bad"} ELSE {}) \cup
                 (IF ItemTargetSpec(k) = "" /\ Len(RouteTab[rt].targets) > 1 THEN {"target_ambiguous"} ELSE {})
            ELSE {}))

\* ------------------------------------------------------------------ request-level problems
ReqReasons(p, path, scope, req, total) ==
  LET pol == PolTab[p]
      rt  == ScopeRoute(scope)
  IN (IF req = "no_reason" THEN {"no_reason"} ELSE {}) \cup
     (IF req = "long_reason" THEN {"bad_reason"} ELSE {}) \cup
     (IF req = "no_actor" /\ (pol.reqActor \/ (path = "scoped" /\ pol.actors)) THEN {"no_actor"} ELSE {}) \cup
     (IF req = "no_reqid" /\ pol.reqReqID THEN {"no_reqid"} ELSE {}) \cup
     (IF req = "actor_bad" /\ path = "scoped" /\ pol.actors THEN {"actor_bad"} ELSE {}) \cup
     (IF req \in BodyBroken THEN {req} ELSE {}) \cup
     (IF req \notin BodyBroken /\ total > MaxItems THEN {"too_many"} ELSE {}) \cup
     (IF path = "global" /\ ~pol.direct THEN {"direct_off"} ELSE {}) \cup
     (IF path = "scoped" /\ ~pol.managed THEN {"managed_off"} ELSE {}) \cup
     (IF path = "scoped" /\ ~Known(rt) THEN {"scope_unknown"} ELSE {}) \cup
     (IF path = "scoped" /\ Known(rt) THEN RouteReasons(p, path, rt) ELSE {})

\* items are only looked at when the body could be read
ItemsVisible(req) == req \notin BodyBroken

Offending(p, path, scope, req, items) ==
  IF ItemsVisible(req) THEN {i \in 1..Len(items) : Reasons(p, path, scope, items, i) # {}} ELSE {}

\* the decision before queue capacity is considered
Outcome(p, path, scope, req, pad, items) ==
  IF ReqReasons(p, path, scope, req, pad + Len(items)) # {} \/ Offending(p, path, scope, req, items) # {}
  THEN "refuse" ELSE "store_all"

\* item indices (1-based, within items) an error may name: offending, and first for one of its reasons
AdmissibleIdx(p, path, scope, req, items) ==
  {i \in Offending(p, path, scope, req, items) :
     \E r \in Reasons(p, path, scope, items, i) : \A j \in 1..(i - 1) : r \notin Reasons(p, path, scope, items, j)}

\* ------------------------------------------------------------------ status and code per reason
StatusOf(r) ==
  CASE r \in {"route_off", "route_direct_off", "route_managed_off", "pull_off", "deliver_off", "direct_off", "managed_off"} -> {"403"}
    [] r \in {"payload_over", "headers_over"} -> {"413"}
    [] r = "dup_queue"      -> {"409"}
    [] r = "dup_batch"      -> {"400", "409"}
    [] r = "unknown_route"  -> {"400", "404"}
    [] r = "scope_unknown"  -> {"404"}
    [] r = "actor_bad"      -> {"400", "403"}   \* docs/admin-api.md says 403, the error table of the handlers 400
    [] r = "huge_body"      -> {"400", "413"}
    [] r = "queue_full"     -> {"503", "429"}   \* docs say 429
    [] OTHER                -> {"400"}

\* codes docs/admin-api.md documents; other reasons only need a non-empty code
DocCode ==
  ("payload_over" :> "payload_too_large") @@ ("headers_over" :> "headers_too_large") @@ ("header_invalid" :> "invalid_header") @@
  ("dup_queue" :> "duplicate_id") @@ ("route_off" :> "route_publish_disabled") @@ ("route_direct_off" :> "route_publish_disabled") @@
  ("route_managed_off" :> "route_publish_disabled") @@ ("direct_off" :> "global_publish_disabled") @@
  ("managed_off" :> "scoped_publish_disabled") @@ ("managed_route" :> "managed_selector_required") @@
  ("managed_selector" :> "scoped_publish_required") @@ ("no_actor" :> "audit_actor_required") @@
  ("no_reqid" :> "audit_request_id_required") @@ ("actor_bad" :> "audit_actor_not_allowed") @@
  ("scope_unknown" :> "managed_endpoint_not_found") @@ ("queue_full" :> "queue_full")

CodeOK(r, code) == code # "" /\ (r \in DOMAIN DocCode => code = DocCode[r])

\* filler item that is acceptable in a frame (scope app1/ep2 has two targets: the target must be named)
Filler(path, scope) == IF path = "scoped" /\ scope = "app1/ep2" THEN "ok_t" ELSE "ok"
=============================================================================
