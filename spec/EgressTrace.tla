----------------------------- MODULE EgressTrace -----------------------------
(***************************************************************************)
(* Trace validation of the real dispatcher.HTTPDeliverer / PushDispatcher   *)
(* against Egress.tla ("follow mode").  Every line of the trace is one     *)
(* execution of one concrete instance of an abstract row:                  *)
(*   row  : the abstract row exactly as TLC generated it (EgressMC)        *)
(*   conc : the concrete URLs / resolver answers / policy text (not read   *)
(*          here; kept for reproduction)                                   *)
(*   obs  : n = number of requests the recording transport saw in the      *)
(*          first delivery attempt, hopidx = the chain hop each of them    *)
(*          was addressed to, cls = class of the deliverer's result        *)
(*   disp : (mode = "dispatch") what the real push dispatcher did with the *)
(*          message on a memory store; (mode = "prod") the same through    *)
(*          the production wiring of app.VerifBoot (policy, deliverer and  *)
(*          routes built as `hookaido run` builds them; the resolver is an *)
(*          in-process DNS responder, the transport http.DefaultTransport  *)
(*          replaced by the recorder)                                      *)
(* For every line the specification computes the admissible outcomes from  *)
(* the row and requires the observation to be one of them.  A failed       *)
(* requirement prints <<"FAIL", line, event, check>> and validation goes   *)
(* on.  The run is accepted iff every line was consumed and no FAIL was    *)
(* printed.                                                                *)
(*                                                                         *)
(* One-sidedness is explicit, never blanket: the classes of Egress!V4May   *)
(* and V6May (broadcast, 240/4, 0/8, 100.64/10, fec0::/10, space outside   *)
(* 2000::/3) may be refused under rebind protection although the statement *)
(* does not list them; everything else is two-sided.                       *)
(***************************************************************************)
EXTENDS Egress, Json, TLC

CONSTANT TraceFile
Trace == ndJsonDeserialize(TraceFile)

VARIABLE l
vars == <<l>>

Chk(name, b) == IF b THEN TRUE ELSE PrintT(<<"FAIL", l, Trace[l].ev, name>>)

Init == l = 1

MinContacted(hops, pol) ==
  LET ns == {o.n : o \in Outcomes(hops, pol)}
  IN CHOOSE n \in ns : \A k \in ns : n <= k

Direct(e) ==
  LET hops == e.row.hops
      pol  == e.row.pol
      outs == Outcomes(hops, pol)
      n    == e.obs.n
  IN \* the safety half of C16: nothing is sent to a hop the policy refuses (or to anything behind it)
     /\ Chk("sent_to_refused_hop", n <= MaxContacted(hops, pol))
     \* the other half: what the policy allows is sent
     /\ Chk("refused_allowed_hop", n >= MinContacted(hops, pol))
     \* result class for the number of hops contacted (policy denial / redirect not followed / ok)
     /\ Chk("result_class", (n <= MaxContacted(hops, pol) /\ n >= MinContacted(hops, pol))
                               => [n |-> n, cls |-> e.obs.cls] \in outs)
     \* the requests went to hops 1..n of the chain, in order, and to nothing else
     /\ Chk("hop_order", Len(e.obs.hopidx) = n /\ \A i \in 1 .. n : i <= Len(e.obs.hopidx) => e.obs.hopidx[i] = i - 1)

Dispatch(e) ==
  LET d   == e.disp
      cls == e.obs.cls
      n   == e.obs.n
  IN \* a denied delivery is dead-lettered as policy_denied, without a retry, and no request beyond the allowed prefix
     /\ Chk("dlq_policy_denied",
            cls = "policy_denied" =>
               /\ d.state = "dead" /\ d.reason = "policy_denied"
               /\ d.calls = 1 /\ d.attempts = 1 /\ d.total = n
               /\ Len(d.outcomes) = 1 /\ d.outcomes[1] = "dead/policy_denied")
     /\ Chk("dlq_reason_only_for_denial", d.reason = "policy_denied" => cls = "policy_denied")
     /\ Chk("dlq_delivered", cls = "ok" <=> d.state = "delivered")
     /\ Chk("dlq_ok_once", cls = "ok" => d.calls = 1 /\ d.total = n)
     \* a 30x that is not followed is not a success; a failed lookup is a plain failure: it may be retried, but every
     \* attempt stops at the same hop (no request to the hop whose addresses are unknown, nor behind it)
     /\ Chk("dlq_redirect_not_success", cls = "redirect" => d.state = "dead" /\ d.reason # "policy_denied")
     \* ("retrying": production-wiring mode observes one attempt and does not wait for the retry of a failed one)
     /\ Chk("dlq_error_no_request", cls = "error" => d.total = n * d.calls /\ d.state \in {"dead", "retrying"} /\ d.reason # "policy_denied")
     /\ Chk("dlq_terminal", d.state \in {"dead", "delivered", "retrying"} /\ (d.state = "retrying" => (cls = "error" /\ e.mode = "prod")))

Step ==
  /\ l <= Len(Trace)
  /\ LET e == Trace[l]
     IN /\ Chk("event", e.ev = "Egress" /\ e.mode \in {"direct", "dispatch", "prod"})
        /\ Direct(e)
        /\ (e.mode \in {"dispatch", "prod"} => Dispatch(e))
  /\ l' = l + 1

Next == Step
Spec == Init /\ [][Next]_vars

TraceAccepted ==
  LET d == TLCGet("stats").diameter
  IN IF d - 1 = Len(Trace) THEN TRUE
     ELSE PrintT(<<"REJECTED", "matched", d - 1, "of", Len(Trace)>>) /\ FALSE
=============================================================================
