------------------------------- MODULE Signing -------------------------------
(***************************************************************************)
(* C17 - HMAC signing and secret rotation windows.                         *)
(*                                                                         *)
(* Written from the property statement and the repository documentation    *)
(* (docs/delivery.md "Secret Rotation" / "Canonical Signature Format",     *)
(* DESIGN.md "Secret rotation semantics"):                                  *)
(*   - a secret version has an id and a validity window; valid_from is     *)
(*     inclusive, valid_until exclusive, no valid_until = no end;          *)
(*   - outbound signing picks, among the versions valid at the signing     *)
(*     instant, the newest (newest_valid) or the oldest (oldest_valid) by  *)
(*     valid_from, ties by id (smaller id first);                          *)
(*   - no version valid, or the secret of the picked version cannot be     *)
(*     loaded  =>  nothing is sent;                                        *)
(*   - the signed string is METHOD \n escaped-path \n unix-seconds \n      *)
(*     hex(sha256(body)) over the body actually sent;                      *)
(*   - inbound verification accepts exactly the versions valid at the      *)
(*     request's SIGNED timestamp (not the wall clock of the verifier).    *)
(*                                                                         *)
(* Time is abstract: integer ticks 0..MaxT.  A tick is concretised by the  *)
(* harness as any instant of the half-open interval                        *)
(* [Base + t*Unit, Base + (t+1)*Unit), window bounds as Base + k*Unit, so  *)
(* "t = valid_until" is the exact boundary instant and "t = until - 1" is  *)
(* every instant up to one nanosecond before it.                           *)
(***************************************************************************)
EXTENDS Naturals, Integers, Sequences, FiniteSets

Open == 99                       \* "no valid_until"
Modes == {"newest_valid", "oldest_valid"}

\* A version set is a sequence of windows [from, until]; the INDEX is the rank
\* of the version's id (index 1 = smallest id).  The order in which versions
\* are listed in the configuration is NOT part of the abstract input: the
\* harness lists them in several permutations.
Window(maxT) == {w \in [from : 0 .. (maxT - 1), until : (1 .. maxT) \cup {Open}] : w.until > w.from}

IsValid(w, t) == w.from <= t /\ t < w.until

ValidAt(vs, t) == {i \in DOMAIN vs : IsValid(vs[i], t)}

\* rank of version i under the mode: smaller Better-rank wins
Better(vs, mode, i, j) ==
  \/ (mode = "newest_valid" /\ vs[i].from > vs[j].from)
  \/ (mode = "oldest_valid" /\ vs[i].from < vs[j].from)
  \/ (vs[i].from = vs[j].from /\ i < j)

\* 0 = no version valid at t (nothing may be sent)
Select(vs, t, mode) ==
  LET V == ValidAt(vs, t)
  IN IF V = {} THEN 0
     ELSE CHOOSE i \in V : \A j \in V \ {i} : Better(vs, mode, i, j)

\* What a signed outbound delivery must look like.  unloadable = set of version
\* ids whose secret value cannot be loaded (unset environment variable).
\* Result: 0 = nothing sent, k > 0 = sent and signed with version k.
OutboundSigner(vs, t, mode, unloadable) ==
  LET s == Select(vs, t, mode)
  IN IF s = 0 \/ s \in unloadable THEN 0 ELSE s

\* Inbound: a request whose signature was made with version `signer` (0 = a
\* secret that is not configured at all) carrying signed timestamp tick t.
InboundAccepts(vs, t, signer) == signer \in ValidAt(vs, t)

\* "Every push request ... carries ... a signature ... over the body actually sent": when redirects are enabled the
\* requests that follow a 30x answer are push requests as well.  Each of them must carry a signature that is valid for
\* ITS OWN method, path and body (or the delivery must not be continued); a header copied from the first hop is not.
\* valid = sequence of BOOLEAN, one per request sent, "the signature header verifies over this very request".
EveryRequestSigned(valid) == \A i \in DOMAIN valid : valid[i]

(***************************************************************************)
(* Canonical string: the four components, in this order, joined by "\n".   *)
(* The concrete strings are built by the harness; the specification fixes  *)
(* which observable each component must equal.                             *)
(***************************************************************************)
CanonicalParts == <<"METHOD-uppercase", "escaped-path-as-sent-or-slash", "unix-seconds-of-clock", "hex-sha256-of-sent-body">>
InboundParts   == <<"timestamp-header-text", "method", "cleaned-path", "hex-sha256-of-body">>
=============================================================================
