----------------------------- MODULE McpGateCov -----------------------------
(***************************************************************************)
(* Non-vacuity of a C20 run, decided over the complete executed trace      *)
(* (all shards concatenated): every row of the gating table was executed   *)
(* exactly once; every tool was, at least once, allowed AND seen to take   *)
(* effect (the effect kind the tool is there for: database change, config  *)
(* file change, process spawned / stopped / signalled, output returned);   *)
(* every denial reason occurred on a refused call; every argument shape    *)
(* was executed.  A failure is a vacuous run (infrastructure), never a     *)
(* verdict about the code.                                                 *)
(***************************************************************************)
EXTENDS McpGateMC, Json

CONSTANT TraceFile
Trace == ndJsonDeserialize(TraceFile)

Idx == DOMAIN Trace
Row(i) == Trace[i].row

IsTable(i) == Row(i).shape = "minimal"

AllowedWithEffect(t) ==
  {i \in Idx : /\ Row(i).tool = t /\ Row(i).spell = "exact" /\ IsTable(i)
               /\ Class(t, Row(i).role, Row(i).mut, Row(i).rc, Row(i).principal, Row(i).actor) = "allowed"
               /\ Trace[i].obs = "ok" /\ Trace[i].effect = EffectKind(t)
               /\ (t \in MutatingTools => (Len(Trace[i].audits) = 1 /\ Trace[i].audits[1].result = "success"))}

Reasons == {"unknown_tool", "role", "mutations_flag", "runtime_flag", "principal", "actor"}

RefusedFor(reason) ==
  {i \in Idx : /\ IsTable(i) /\ Trace[i].obs = "refused"
               /\ reason \in DenyReasons(WireTool(Row(i)), Row(i).role, Row(i).mut, Row(i).rc, Row(i).principal, Row(i).actor)}

\* refused for this reason alone (the reason is the only thing standing between the caller and the tool)
RefusedOnlyFor(reason) ==
  {i \in RefusedFor(reason) : DenyReasons(WireTool(Row(i)), Row(i).role, Row(i).mut, Row(i).rc, Row(i).principal, Row(i).actor) = {reason}}

Key(r) == <<r.tool, r.spell, r.role, r.mut, r.rc, r.principal, r.actor, r.shape>>

TableKeys == {Key(r) : r \in TableRows \cup SpellRows}
ShapeKeys == {Key(r) : r \in ShapeRows}
SeenKeys  == {Key(Row(i)) : i \in {j \in Idx : Row(j).shape # "random"}}

NRandom == Cardinality({i \in Idx : Row(i).shape = "random"})

Stats == [tools   |-> [t \in AllTools |-> Cardinality(AllowedWithEffect(t))],
          reasons |-> [x \in Reasons |-> Cardinality(RefusedFor(x))],
          only    |-> [x \in Reasons |-> Cardinality(RefusedOnlyFor(x))],
          table   |-> Cardinality({i \in Idx : IsTable(i)}),
          shapes  |-> Cardinality({i \in Idx : ~IsTable(i) /\ Row(i).shape # "random"}),
          random  |-> NRandom,
          refused_random |-> Cardinality({i \in Idx : Row(i).shape = "random" /\ Trace[i].obs = "refused"}),
          ok_random      |-> Cardinality({i \in Idx : Row(i).shape = "random" /\ Trace[i].obs = "ok"})]

Covered ==
  /\ PrintT(<<"COVER", ToJson(Stats)>>)
  /\ SeenKeys = TableKeys \cup ShapeKeys                                   \* the complete table, nothing else
  /\ Cardinality({i \in Idx : Row(i).shape # "random"}) = Cardinality(TableKeys \cup ShapeKeys)   \* each row once
  /\ \A t \in AllTools : AllowedWithEffect(t) # {}
  /\ \A x \in Reasons : RefusedOnlyFor(x) # {}
  /\ \A t \in QueueMutationTools : \E i \in Idx :            \* Admin-proxy mode: an allowed mutation was forwarded
        /\ Row(i).shape = "proxy_minimal" /\ Row(i).tool = t /\ Trace[i].obs = "ok" /\ Trace[i].admin_posts >= 1
  /\ \A t \in QueueReadTools : \E i \in Idx :
        /\ Row(i).shape = "proxy_minimal" /\ Row(i).tool = t /\ Trace[i].obs = "ok" /\ Trace[i].admin_gets >= 1
  /\ \A s \in Shapes : \E i \in Idx : Row(i).shape = s
  /\ \A t \in AllTools, sp \in Spellings \ {"exact"} :     \* every near miss of every tool name was sent and refused
        \E i \in Idx : Row(i).tool = t /\ Row(i).spell = sp /\ Trace[i].obs = "refused" /\ Trace[i].wire_name # t

\* one state; Covered is evaluated once as an invariant (row is the variable inherited from McpGateMC)
CovInit == row = "none"
CovNext == UNCHANGED row
CovSpec == CovInit /\ [][CovNext]_row
=============================================================================
