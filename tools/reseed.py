#!/usr/bin/env python3
"""reseed.py <seed-name> [extra check ids...]
Re-evaluate a recorded seeded change (/verif/seeded/<seed-name>/) against the checks as they are now: rebuilds the
author's seed directory from the record and runs tools/try_seed.py on it (fresh scratch worktree, removed afterwards)."""
import json
import os
import shutil
import subprocess
import sys

name = sys.argv[1]
src = os.path.join("/verif/seeded", name)
meta = json.load(open(os.path.join(src, "meta.json")))
import re
m = re.search(r"\.seed/(\d+)", meta["author_meta"].get("demo_cmd", ""))
k = m.group(1) if m else name.split("-")[-1]
tmp = os.path.join("/tmp", "reseed-" + name, k)
shutil.rmtree(os.path.dirname(tmp), ignore_errors=True)
os.makedirs(tmp)
for f in os.listdir(src):
    if f != "meta.json":
        shutil.copyfile(os.path.join(src, f), os.path.join(tmp, f))
json.dump(meta["author_meta"], open(os.path.join(tmp, "meta.json"), "w"), indent=1)
try:
    rc = subprocess.call([sys.executable, "/verif/tools/try_seed.py", meta["breaks_property"], tmp, name] + sys.argv[2:])
finally:
    shutil.rmtree(os.path.dirname(tmp), ignore_errors=True)
sys.exit(rc)
