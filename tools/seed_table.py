#!/usr/bin/env python3
"""Print the markdown table of seeded changes from /verif/seeded/*/meta.json (and patch DESIGN.md with --write)."""
import glob, json, os, re, sys
rows = []
for f in sorted(glob.glob('/verif/seeded/*/meta.json')):
    m = json.load(open(f))
    name = os.path.basename(os.path.dirname(f))
    lc = m.get('lead_confirmation', {})
    checks = lc.get('checks', {})
    verdict = []
    for c, v in checks.items():
        verdict.append('%s: %s' % (c, 'caught' if v.get('exit') == 1 else ('missed' if v.get('exit') == 0 else 'exit %s' % v.get('exit'))))
    sig = ''
    for c, v in checks.items():
        for l in v.get('lines', []):
            l = l.strip()
            if l and not l.startswith('VIOLATION') and not l.startswith('OK') and not l.startswith('KNOWN') and '/' in l:
                sig = l.split(':')[0][:70]
                break
        if sig:
            break
    summ = (m.get('summary') or '').replace('|', '/').replace('\n', ' ')
    rows.append('| %s | %s | %s | %s | %s |' % (name, 'yes' if lc.get('confirmed') else 'NO', summ[:200], '; '.join(verdict), sig))
table = '| Seed | Confirmed | Change | Quick check | First signature |\n|---|---|---|---|---|\n' + '\n'.join(rows)
if '--write' in sys.argv:
    p = '/verif/DESIGN.md'
    s = open(p).read()
    if 'SEED_TABLE_PLACEHOLDER' in s:
        s = s.replace('SEED_TABLE_PLACEHOLDER', '<!-- seed table begin -->\n' + table + '\n<!-- seed table end -->')
    else:
        s = re.sub(r'<!-- seed table begin -->.*?<!-- seed table end -->', lambda _: '<!-- seed table begin -->\n' + table + '\n<!-- seed table end -->', s, flags=re.S)
    open(p, 'w').write(s)
print(table)
