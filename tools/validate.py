#!/opt/veriftools/pyvenv/bin/python
"""Validate MANIFEST.json and evidence files against the schemas."""
import glob, json, sys
import jsonschema
ok = True
try:
    jsonschema.validate(json.load(open('/verif/MANIFEST.json')), json.load(open('/root/.vp/MANIFEST.schema.json')))
    print("MANIFEST ok")
except Exception as e:
    ok = False; print("MANIFEST INVALID:", str(e)[:500])
sch = json.load(open('/root/.vp/EVIDENCE.schema.json'))
for f in sorted(glob.glob('/verif/evidence/*.json')):
    try:
        jsonschema.validate(json.load(open(f)), sch); print(f, "ok")
    except Exception as e:
        ok = False; print(f, "INVALID:", str(e)[:500])
sys.exit(0 if ok else 1)
