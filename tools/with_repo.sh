#!/bin/sh
# with_repo.sh <repo-dir> <command...> : run a check against another checkout of hookaido (mutation testing).
# Creates a private copy of /verif/harness whose go.mod replaces the module with <repo-dir>, and a private build dir.
set -e
R="$1"; shift
W=$(mktemp -d /var/tmp/verif-alt-XXXXXX)
trap 'rm -rf "$W"' EXIT
cp -r /verif/harness /verif/lib /verif/checks /verif/spec /verif/bin /verif/tools "$W"/
[ -f /verif/known_findings.txt ] && cp /verif/known_findings.txt "$W"/
sed -i "s#=> /repo#=> $R#" "$W/harness/go.mod"
mkdir -p "$W/evidence" "$W/replays"
cd "$W"
VERIF_REPO="$R" "$@"
