#!/usr/bin/env python3
"""Show trace events (with the previous post-state) for triage: showev.py trace.ndjson line..."""
import json, sys
L = [json.loads(x) for x in open(sys.argv[1])]
for a in sys.argv[2:]:
    i = int(a)
    j = i
    while L[j-1]['ev'] != 'Reset':
        j -= 1
    r = L[j-1]
    print('--- line', i, 'trace', r['tr'], json.dumps(r['cfg']))
    prev, e = L[i-2], L[i-1]
    print('PRE ', json.dumps(prev.get('post')), prev.get('vol'))
    print('EV  ', e['ev'], json.dumps(e.get('a')), '->', json.dumps(e.get('r')), 'now', e.get('now'))
    print('POST', json.dumps(e.get('post')), e.get('vol'))
