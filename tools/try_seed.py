#!/usr/bin/env python3
"""try_seed.py <property-id> <seed-dir> <seed-name> [extra check ids...]
Confirm a seeded defect (demo passes clean / fails with the patch, suite passes with the patch) in a scratch worktree of
/repo, run the property's quick check(s) against the patched worktree, and record everything under /verif/seeded/<seed-name>/."""
import json
import os
import shutil
import subprocess
import sys
import time

prop, seed_dir, name = sys.argv[1], sys.argv[2], sys.argv[3]
checks = [prop] + sys.argv[4:]
wt = "/tmp/tryseed-" + name
env = dict(os.environ, GOFLAGS="-mod=mod", GOPROXY="off")
env.pop("GOSUMDB", None)
env.pop("GOTOOLCHAIN", None)


def sh(cmd, cwd=None, timeout=3600):
    p = subprocess.run(cmd, shell=True, cwd=cwd, env=env, stdout=subprocess.PIPE, stderr=subprocess.STDOUT, text=True, timeout=timeout)
    return p.returncode, p.stdout


subprocess.run(["git", "-C", "/repo", "worktree", "remove", "--force", wt], stdout=subprocess.DEVNULL, stderr=subprocess.DEVNULL)
rc, out = sh("git -C /repo worktree add -f %s HEAD" % wt)
assert rc == 0, out
res = {"seed": name, "property": prop, "repo_head": sh("git -C /repo rev-parse --short HEAD")[1].strip(), "ran": []}
try:
    meta = json.load(open(os.path.join(seed_dir, "meta.json")))
    k = os.path.basename(os.path.normpath(seed_dir))
    os.makedirs(os.path.join(wt, ".seed"), exist_ok=True)
    shutil.copytree(seed_dir, os.path.join(wt, ".seed", k))
    import re
    # the demonstration runs in the scratch worktree, whatever directory its author named
    demo_cmd = re.sub(r"^\s*cd\s+\S+\s*&&\s*", "", meta["demo_cmd"]).replace("WORKTREE", wt)
    rc_clean, out_clean = sh(demo_cmd, cwd=wt)
    res["demo_passes_clean"] = rc_clean == 0
    res["ran"].append("clean worktree: " + demo_cmd + " -> exit %d" % rc_clean)
    rc, out = sh("git apply .seed/%s/patch.diff" % k, cwd=wt)
    res["patch_applies"] = rc == 0
    if rc != 0:
        res["apply_output"] = out[-800:]
    rc_p, out_p = sh(demo_cmd, cwd=wt)
    res["demo_fails_with_patch"] = rc_p != 0
    res["ran"].append("patched worktree: " + demo_cmd + " -> exit %d" % rc_p)
    # remove the demonstration again, then the unedited suite must pass with the patch
    sh("git clean -fd -e .seed", cwd=wt)
    rc_s, out_s = sh("go build ./... && go test -count=1 ./...", cwd=wt)
    res["suite_passes_with_patch"] = rc_s == 0
    if rc_s != 0:
        res["suite_output"] = "\n".join([l for l in out_s.splitlines() if l.startswith(("FAIL", "---", "panic")) or "FAIL" in l][:20]) + "\n" + out_s[-800:]
    res["ran"].append("patched worktree: go build ./... && go test -count=1 ./... -> exit %d" % rc_s)
    res["checks"] = {}
    for c in checks:
        t0 = time.time()
        rc_c, out_c = sh("/verif/tools/with_repo.sh %s bin/check %s --tier quick" % (wt, c), cwd="/verif", timeout=5400)
        lines = [l for l in out_c.splitlines() if l.startswith("VIOLATION") or l.startswith("  ") and "/" in l[:60] or l.startswith("INFRA") or l.startswith("OK ") or l.startswith("KNOWN")]
        res["checks"][c] = {"exit": rc_c, "detected": rc_c == 1, "wall_s": round(time.time() - t0), "lines": [l[:400] for l in lines[:8]]}
        res["ran"].append("tools/with_repo.sh <patched worktree> bin/check %s --tier quick -> exit %d" % (c, rc_c))
    res["confirmed"] = bool(res["demo_passes_clean"] and res["demo_fails_with_patch"] and res["suite_passes_with_patch"] and res["patch_applies"])
    dest = os.path.join("/verif/seeded", name)
    os.makedirs(dest, exist_ok=True)
    for f in os.listdir(seed_dir):
        if f != "meta.json":
            shutil.copyfile(os.path.join(seed_dir, f), os.path.join(dest, f))
    meta_out = {"breaks_property": prop, "summary": meta.get("summary"), "needs": meta.get("needs"), "files": meta.get("files"), "demo_cmd": demo_cmd,
                "author_meta": meta, "lead_confirmation": res}
    json.dump(meta_out, open(os.path.join(dest, "meta.json"), "w"), indent=1)
    print(json.dumps({"seed": name, "confirmed": res["confirmed"], "checks": {c: (v["exit"], v["lines"][:2]) for c, v in res["checks"].items()}}, indent=1))
finally:
    subprocess.run(["git", "-C", "/repo", "worktree", "remove", "--force", wt], stdout=subprocess.DEVNULL, stderr=subprocess.DEVNULL)
    shutil.rmtree(wt, ignore_errors=True)
