"""C07 - end-to-end payload and header fidelity.

MC   FidelityMC: every valid input (source x payload class x header-set class x backend x route kind x transport)
     and every bounded path of one message's journey: Immutable, ObsFaithful, SensitiveNeverStored, NoSecretValue,
     OversizeNeverStored, OthersKept, CopyWins, NothingInvented.
GEN  FidelityGen prints operation sequences (inputs only):
       tour   every input x one fixed long path through every channel (pull HTTP, worker gRPC, in-process worker
              call with the returned slices scribbled over, admin listings, push with retry / dead-letter / requeue,
              nack, lease expiry, restart),
       edges  a few inputs x every edge of the bounded journey graph,
       sim    random long paths over the full input product (tlc -simulate, seeded).
EXE  harness/cmd/hkv-fidelity: each schedule on an in-process hookaido wired by app.VerifBoot.
TV   FidelityTrace: every event against Stored(...) computed by the spec from the abstract tokens.
"""
import collections
import concurrent.futures as cf
import json
import os
import re
import time

import vf

TOOL = "hkv-fidelity"

RULE = ("MC: FidelityMC exhaustively over all valid abstract inputs and bounded journeys (payload / headers immutable, every "
        "observation equals the accepted payload token and Stored(received, copied) = Strip(Canon(received)) (+) copied, sensitive "
        "names and values never stored, oversize never stored). GEN: TLC enumerates (source, payload class, header-set class, "
        "backend, route kind, transport, path): a fixed tour through every channel for every input, every edge of the bounded "
        "journey graph for selected inputs, seeded random long paths over the full product. Each schedule runs on an in-process "
        "hookaido wired by app.VerifBoot (ingress handler or raw bytes on the real ingress listener, admin publish, pull HTTP "
        "handler, real gRPC client, real push dispatcher + HTTP deliverer + loopback target, forward-auth server, stop/start on "
        "the same SQLite file). TV: TLC validates every recorded event (digest + length of every payload seen, full header map, "
        "raw store dump, raw database file scan for secrets) against the specification. distinct_nontrivial = validated events. "
        "Byte-level coverage is by class representatives (seeded), not exhaustive.")

PCS_QUICK = ["empty", "one", "nul", "badutf8", "all256", "ws", "text", "b64ish", "maxm1", "max", "maxp1", "big"]
PCS_ALL = PCS_QUICK + ["dmax", "dmaxp1"]
HCS_ALL = ["sigcol", "none", "plain", "case", "repeat", "repcase", "values", "values2", "pvals", "sens", "senslow", "sensup", "sensmix",
           "near", "copy", "collide", "copysens", "hmaxm1", "hmax", "hmaxp1"]
LIST_CH = {"messages": "admin-messages", "dlq": "admin-dlq", "mcp": "mcp-messages", "mcpdlq": "mcp-dlq"}
OVER_PCS = {"maxp1", "dmaxp1"}
OVER_HCS = {"hmaxp1"}
WIRE_ONLY_PCS = {"dmax", "dmaxp1"}

INVARIANTS = ["TypeOK", "ObsFaithful", "SensitiveNeverStored", "NoSecretValue", "OversizeNeverStored", "OthersKept", "CopyWins",
              "NothingInvented"]
PROPERTIES = ["Immutable"]


VIAS_ALL = ("handler", "wire", "stream", "chunked")
SHAPES_ALL = ("single", "after", "before", "middle")
OKINDS_ALL = ("handler", "wire", "stream", "chunked", "publish")


SRCS_ALL = ("ingress", "publish", "mpublish", "mcp")


def params(pcs=PCS_ALL, hcs=HCS_ALL, srcs=SRCS_ALL, feats=(False, True), bes=("memory", "sqlite"), modes=("pull", "push"),
           vias=VIAS_ALL, shapes=SHAPES_ALL, star=False, free=False, maxdeq=2, maxatt=2, maxrs=1, minend=0, tour=False,
           maxother=1, okinds=OKINDS_ALL, osizes=("same", "longer", "shorter")):
    consts = {"Srcs": set(srcs), "PCs": set(pcs), "HCs": set(hcs), "Bes": set(bes), "ModesC": set(modes), "Vias": set(vias),
              "Shapes": set(shapes), "OKinds": set(okinds), "OSizes": set(osizes), "Feats": set(feats)}
    plain = {"Star": star, "CentrePC": "text", "CentreHC": "plain", "FreeRoute": free, "MaxDeq": maxdeq, "MaxAtt": maxatt,
             "MaxRs": maxrs, "MinEnd": minend, "UseTour": tour, "MaxOther": maxother}
    return consts, plain


def run_mc(ctx, name, timeout=900, workers=None, **kw):
    consts, plain = params(**kw)
    r = vf.mc_run(ctx, name, "FidelityMC", consts, plain, invariants=INVARIANTS, properties=PROPERTIES, view="View", timeout=timeout,
                  workers=workers)
    vf.mc_expect_ok(ctx, r, "FidelityMC/" + name)
    return r


RE_EDGE = re.compile(r'^<<"EDGE", ([01]), "(.*)">>$')


def gen(ctx, name, kind, depth=0, simulate=0, timeout=900, workers=None, **kw):
    """Run FidelityGen; returns de-duplicated schedules (lists of op dicts).
    kind = tour | edges | sim."""
    kw = dict(kw)
    kw["tour"] = kind == "tour"
    consts, plain = params(**kw)
    plain["GenDepth"] = depth if kind == "sim" else 0
    extra, workers, view = [], workers or vf.NCPU, ("ViewT" if kind == "tour" else "View")
    if kind == "sim":
        extra = ["-simulate", "num=%d" % simulate, "-depth", str(depth + 1), "-seed", str(ctx.seed)]
        workers, view = 1, None
    r = vf.mc_run(ctx, "gen-" + name, "FidelityGen", consts, plain, spec="GenSpec", view=view, timeout=timeout, extra=extra,
                  workers=workers)
    if r["error"] or r["violated"] or (not r["ok"] and kind != "sim"):
        raise vf.Infra("FidelityGen/%s failed: %s\n%s" % (name, r["error"] or r["violated"], "\n".join(r["out"].splitlines()[-30:])))
    edges = 0
    loops = {}
    scheds = set()
    for line in r["out"].splitlines():
        m = RE_EDGE.match(line)
        if not m:
            continue
        edges += 1
        ops = json.loads(json.loads('"' + m.group(2) + '"'))
        key = tuple(json.dumps(o, sort_keys=True) for o in ops)
        if kind == "edges" and m.group(1) == "1":
            loops.setdefault(key[:-1], []).append(key[-1])     # self-loops of one state are chained into one schedule
        else:
            scheds.add(key)
    for path, lops in loops.items():
        scheds.add(path + tuple(sorted(set(lops))))
    ordered = sorted(scheds)
    keep = [s for i, s in enumerate(ordered) if not (i + 1 < len(ordered) and ordered[i + 1][:len(s)] == s)]
    ctx.cov["mc_runs"].append({"name": "gen-" + name, "distinct": r["distinct"], "generated": r["generated"], "edges": edges,
                               "schedules": len(keep), "secs": r["secs"]})
    ctx.cov["states"] += r["distinct"]
    ctx.cov["transitions"] += r["generated"]
    ctx.count("gen_%s_edges" % kind, edges)
    ctx.count("gen_%s_schedules" % kind, len(keep))
    if not keep:
        raise vf.Infra("FidelityGen/%s produced no schedule" % name)
    return [{"name": "%s-%05d" % (name, i), "ops": [json.loads(o) for o in s]} for i, s in enumerate(keep)]


def execute(ctx, scheds, tag, procs=None, timeout=1500):
    """Run the schedules on the real code, sharded over processes; returns the trace files."""
    sf = os.path.join(ctx.scratch, "sched-%s.ndjson" % tag)
    with open(sf, "w") as f:
        for s in scheds:
            f.write(json.dumps(s) + "\n")
    procs = max(1, min(procs or vf.NCPU, len(scheds)))
    outs = [os.path.join(ctx.shm, "trace-%s.%d" % (tag, i)) for i in range(procs)]

    def one(i):
        out = vf.tool(TOOL, ["run", "-sched", sf, "-out", outs[i], "-shard", "%d/%d" % (i, procs), "-seed", str(ctx.seed),
                             "-scratch", ctx.shm], timeout=timeout)
        return json.loads(out.strip().splitlines()[-1])

    with cf.ThreadPoolExecutor(max_workers=procs) as ex:
        infos = list(ex.map(one, range(procs)))
    n = sum(i["journeys"] for i in infos)
    if n != len(scheds):
        raise vf.Infra("executed %d of %d schedules (%s)" % (n, len(scheds), tag))
    ctx.cov["schedules_executed"] += n
    ctx.cov["traces_validated_against_impl"] += n
    return sf, [o for o in outs if os.path.exists(o) and os.path.getsize(o) > 0]


def merge(ctx, files, k):
    """Concatenate the per-process trace files into at most k files of similar size (journeys stay contiguous)."""
    files = sorted(files, key=os.path.getsize, reverse=True)
    k = max(1, min(k, len(files)))
    outs = [os.path.join(ctx.shm, "merged.%d" % i) for i in range(k)]
    sizes = [0] * k
    handles = [open(o, "wb") for o in outs]
    for f in files:
        i = sizes.index(min(sizes))
        with open(f, "rb") as src:
            while True:
                buf = src.read(1 << 20)
                if not buf:
                    break
                handles[i].write(buf)
        sizes[i] += os.path.getsize(f)
    for h in handles:
        h.close()
    return outs


def validate(ctx, files, tag):
    return vf.tv_run(ctx, files, module="FidelityTrace", name="tv-" + tag, props=("file.encoding=UTF-8",), timeout=1500)


# ------------------------------------------------------------------ triage

PAYLOAD_CHECKS = {"held", "noise", "payload", "encoding", "dump_payload", "stored_payload", "oversize", "companion"}
HEADER_CHECKS = {"headers", "dump_headers", "stored_headers", "sensitive", "dump_sensitive", "stored_sensitive", "pushhdr",
                 "persisted_secret", "dump_trace", "stored_trace", "sibling", "stored_sibling"}
STORE_CHECKS = {"noise", "dump_count", "dump_payload", "dump_headers", "dump_sensitive", "stored_count", "stored_payload", "stored_headers",
                "stored_sensitive", "refused_not_stored", "emptystore", "persisted_secret", "dump_trace", "stored_trace", "sibling",
                "stored_sibling"}


def journey_of(events, line):
    j = line
    while j >= 1 and events[j - 1].get("ev") != "Start":
        j -= 1
    return events[j - 1] if j >= 1 else None


def signature(check, e, start):
    c = start["c"]
    ev = e.get("ev")
    if check in STORE_CHECKS:
        channel = "store-" + c["be"] + ("-after-other-" + e["a"]["k"] if ev == "Other" else "")
    elif ev == "Submit":
        channel = c["src"] if c["src"] == "publish" else "ingress-" + c["via"]
    elif ev == "Deq":
        channel = e["a"]["ch"]
    elif ev == "List":
        channel = LIST_CH[e["a"]["which"]]
    elif ev == "Push":
        channel = "push"
    elif ev == "Other":
        channel = "other-" + e["a"]["k"]
    else:
        channel = ev.lower()
    if check in ("sibling", "stored_sibling", "dump_trace", "stored_trace"):
        return "fidelity/%s/%s/%s.%s" % (check, channel, c.get("pb", "single"), c["hc"])
    if check == "companion":
        return "fidelity/companion/%s/batch-%s" % (channel, c["be"])
    if check in HEADER_CHECKS:
        cls = c["hc"]
    elif check in PAYLOAD_CHECKS or c["hc"] in ("plain", "none"):
        cls = c["pc"]
    else:
        cls = c["pc"] + "." + c["hc"]
    return "fidelity/%s/%s/%s" % (check, channel, cls)


def collect_fails(results):
    """-> list of (signature, check, event, start event, line)."""
    out = []
    for r in results:
        if r["error"]:
            raise vf.Infra("trace validation error in %s: %s\n%s" % (r["file"], r["error"], r.get("out_tail", "")))
        lines = list(r["fails"])
        if r["matched"] < r["total"]:
            lines.append((r["matched"] + 1, "?", "rejected"))
        if not lines:
            continue
        events = vf.load_trace(r["file"])
        for (line, ev, check) in lines:
            e = events[line - 1]
            st = journey_of(events, line)
            if st is None:
                raise vf.Infra("failing line %d of %s has no Start" % (line, r["file"]))
            out.append((signature(check, e, st), check, e, st, line))
    return out


def describe(check, e, st):
    c = st["c"]
    r = e.get("r", {})
    bits = ["check '%s' failed at %s%s" % (check, e.get("ev"), (" " + json.dumps(e.get("a"))) if e.get("a", {}).get("_") is None else ""),
            "input: source=%s via=%s backend=%s route=%s%s%s payload class=%s (%d bytes, sha256 %s) header class=%s" % (
                c["src"], c["via"], c["be"], c["mode"], " +limits" if c["lim"] else "", " +forward-auth" if c["fwd"] else "",
                c["pc"], st["pl"]["n"], st["pl"]["d"], c["hc"])]
    if isinstance(r, dict):
        if "status" in r:
            bits.append("status %s" % r["status"])
        if "pl" in r and r.get("n"):
            bits.append("observed payload %d bytes sha256 %s first differing offset %s" % (r["pl"]["n"], r["pl"]["d"], r["pl"]["diff"]))
        if "h" in r and check in HEADER_CHECKS:
            bits.append("observed headers %s" % json.dumps([[h["k"], h["v"]] for h in r["h"]])[:600])
        if r.get("err") or r.get("enc"):
            bits.append("error %s" % (r.get("err") or r.get("enc")))
        if r.get("leak") or r.get("wleak") or r.get("found"):
            bits.append("secret tokens found: %s" % (r.get("leak") or r.get("wleak") or r.get("found")))
    if check.startswith("dump_") or check.startswith("stored_"):
        bits.append("store dump %s" % json.dumps([{"st": d["st"], "pl": d["pl"], "h": [[h["k"], h["v"]] for h in d["h"]], "leak": d["leak"]}
                                                  for d in e.get("dump", [])])[:800])
    return "; ".join(bits)[:1500]


def run_one(ctx, sched, tag):
    """Execute one schedule and validate it; returns the fails of the fresh run."""
    sf, files = execute(ctx, [sched], tag, procs=1)
    res = validate(ctx, files, tag)
    return collect_fails(res), files


def roots(fails):
    """First divergence of every failing journey: {signature: (sig, check, event, start, line)} in order of appearance.
    Everything after the first divergence of a journey is a consequence of it (a wrongly stored header fails at every later
    observation point as well), so only the root is reported."""
    first = collections.OrderedDict()
    for f in fails:
        first.setdefault(f[3].get("name"), f)
    by_sig = collections.OrderedDict()
    for f in first.values():
        by_sig.setdefault(f[0], f)
    return by_sig, len(first)


def triage(ctx, results, scheds, max_sigs=12):
    fails = collect_fails(results)
    if not fails:
        return
    by_name = {s["name"]: s for s in scheds}
    by_sig, njourneys = roots(fails)
    ctx.count("tv_fail_lines", len(fails))
    ctx.count("tv_failing_journeys", njourneys)
    unrepro = []
    for k, (sig, check, e, st, line) in enumerate(by_sig.values()):
        if k >= max_sigs:
            ctx.notes.append("%d further divergence signatures not reproduced individually: %s" % (
                len(by_sig) - max_sigs, ", ".join(list(by_sig)[max_sigs:max_sigs + 20])))
            break
        sched = by_name.get(st.get("name"))
        if sched is None:
            raise vf.Infra("cannot find schedule of failing journey %s" % st.get("name"))
        refails, _ = run_one(ctx, sched, "repro%d" % k)
        resigs = [f[0] for f in refails]
        if sig not in resigs:
            unrepro.append("%s in journey %s (fresh run: %s)" % (sig, st.get("name"), resigs[:5]))
            continue
        f2 = next(f for f in refails if f[0] == sig)
        also = []
        for x in resigs:
            if x != sig and x not in also:
                also.append(x)
        vf.report(ctx, sig, describe(f2[1], f2[2], f2[3]) + ("; later in the same journey: " + ", ".join(also[:8]) if also else ""),
                  {"schedule": sched, "seed": ctx.seed, "check": f2[1], "event": {k2: v for k2, v in f2[2].items() if k2 != "dump"},
                   "dump": f2[2].get("dump"), "start": f2[3]})
    if unrepro:
        # a divergence that does not reproduce is never a verdict; it only stops the run when nothing else was confirmed
        if not ctx.violations:
            raise vf.Infra("divergence did not reproduce: " + "; ".join(unrepro[:5]))
        ctx.notes.append("divergences that did not reproduce on a fresh run (not reported): " + "; ".join(unrepro[:10]))


# ------------------------------------------------------------------ non-vacuity

def tally(ctx, files):
    """Counters over what the real runs actually did."""
    C = collections.Counter()
    for f in files:
        cur, after_restart, after_expire, pushes, after_op, after_other = None, False, False, 0, "", False
        for line in open(f):
            e = json.loads(line)
            ev = e["ev"]
            if ev == "Start":
                cur, after_restart, after_expire, pushes, after_op, after_other = e["c"], False, False, 0, "", False
                cur["_recv"] = e["recv"]
                C["journeys"] += 1
                continue
            c = cur
            if e.get("held", {}).get("n"):
                C["held_result_rechecked/%s" % c["be"]] += 1
            if ev == "Submit":
                ok = 200 <= e["r"]["status"] <= 299
                C["submit/%s/%s" % (c["src"], "accepted" if ok else "refused")] += 1
                if c["src"] == "ingress":
                    C["framing/%s/%s/%s" % (c["via"], c["pc"], "accepted" if ok else "refused")] += 1
                elif ok:
                    C["pubshape/%s/%s/%s" % (c["src"], c.get("pb"), c["be"])] += 1
                    if c.get("pb") in ("after", "middle") and c["hc"] == "none":
                        C["pub_bare_after_headers/%s/%s" % (c["src"], c["be"])] += 1
                    if c.get("pb") in ("before", "middle") and c["hc"] != "none":
                        C["pub_headers_before_bare/%s/%s" % (c["src"], c["be"])] += 1
                C["src/%s/%s/%s/%s" % (c["src"], c["be"], c["pc"], "accepted" if ok else "refused")] += 1
                if not ok:
                    C["refused/%s" % (c["pc"] if c["pc"] in OVER_PCS else c["hc"])] += 1
                    if not e["dump"]:
                        C["refused_nothing_stored"] += 1
                else:
                    C["accepted/pc/%s" % c["pc"]] += 1
                    C["accepted/hc/%s" % c["hc"]] += 1
                    if c["via"] in ("wire", "chunked"):
                        for fl in c["_recv"]:
                            if fl["n"] in ("authorization", "proxy-authorization", "cookie"):
                                C["sensitive/%s/%s" % (fl["n"], fl["c"])] += 1
                    if c["hc"] == "collide":
                        C["copy_collision"] += 1
                    if c["fwd"] and e["r"].get("authcalls", 0) > 0:
                        C["forward_auth_called"] += 1
            elif ev in ("Deq", "Push", "List"):
                if e["r"]["n"] >= 1:
                    ch = e["a"]["ch"] if ev == "Deq" else ("push" if ev == "Push" else LIST_CH[e["a"]["which"]])
                    C["obs/%s/%s/%s" % (c["pc"], ch, c["be"])] += 1
                    C["obs_hc/%s/%s" % (c["hc"], ch)] += 1
                    C["obs_src/%s/%s" % (c["src"], ch)] += 1
                    if after_restart:
                        C["observed_after_restart"] += 1
                    if after_op:
                        C["obs_after/%s/%s/%s" % (after_op, ch, c["be"])] += 1
                    if after_other:
                        C["obs_after_other/%s/%s" % (ch, c["be"])] += 1
                        C["obs_after_other_src/%s/%s" % (c["src"], ch)] += 1
                        if c["fan"]:
                            C["fan_obs_after_other/%s/%s" % (ch, c["be"])] += 1
                        if c["sg"] and ev == "Push":
                            C["signed_after_other/%s" % c["be"]] += 1
                    if ev == "Push":
                        if c["fan"] and e["r"]["f"]["n"] >= 1:
                            C["fan/%s/%s" % (c["be"], c["pc"])] += 1
                            if e["r"].get("mid"):
                                C["fan_other_between_targets/%s" % c["be"]] += 1
                        if c["sg"] and e["r"]["sig"]["have"]:
                            C["signed/%s/%s" % (c["be"], c["pc"])] += 1
                            if pushes >= 1:
                                C["signed_redelivery/%s" % c["be"]] += 1
                            if c["hc"] == "sigcol":
                                C["signed_with_colliding_names/%s" % c["be"]] += 1
                    if ev in ("Deq", "Push"):
                        b = e["a"].get("b", "one")
                        if b == "pair" and e["r"]["k"]["n"] < 1:
                            b = "pair-missed"
                        C["batch/%s/%s/%s" % (b, ch, c["be"])] += 1
                    if ev == "Deq":
                        if e["r"]["att"] >= 2:
                            C["redelivered_pull"] += 1
                        if after_expire:
                            C["redelivered_after_expiry"] += 1
                            after_expire = False
                        if e["r"].get("mutated"):
                            C["inproc_result_scribbled"] += 1
                    if ev == "Push":
                        pushes += 1
                        if pushes >= 2:
                            C["redelivered_push"] += 1
                        if e["a"].get("after") == "requeue":
                            C["push_after_dlq_requeue"] += 1
            elif ev == "Restart":
                C["restart"] += 1
                if e["dump"]:
                    after_restart = True
                    C["restart_with_message"] += 1
            elif ev == "Expire":
                after_expire = True
                C["lease_expired"] += 1
            elif ev == "Requeue":
                if e["r"]["n"] >= 1:
                    C["dlq_requeue"] += 1
                    C["dlq_requeue_by/%s/%s" % (e["a"].get("by"), c["be"])] += 1
            elif ev == "LeaseOp":
                C["leaseop/%s/%s/%s" % (e["a"]["kind"], e["a"]["ch"], e["a"].get("form", "single"))] += 1
            elif ev == "Other":
                if e["r"]["accepted"] > 0:
                    C["other/%s/%s/%s" % (e["a"]["k"], e["a"]["sz"], c["be"])] += 1
                    C["other_while/%s" % (e["dump"][0]["st"] if e["dump"] else "-")] += 1
                    after_other = True
            elif ev == "Extend":
                if e["r"]["ok"]:
                    C["lease_extended/%s" % e["a"]["ch"]] += 1
            elif ev in ("Cancel", "Resume", "RequeueMsg"):
                if e["r"]["n"] >= 1:
                    C["operator/%s/%s/%s" % (ev, e["a"]["form"], c["be"])] += 1
                    if c["src"] == "mpublish" and e["a"]["form"] == "filter":
                        C["operator_endpoint_scoped/%s/%s" % (ev, c["be"])] += 1
                    if c["fan"]:
                        C["operator_fan/%s" % ev] += 1
                    if ev == "Cancel":
                        C["cancel_from/%s" % e["a"].get("from")] += 1
                    else:
                        after_op = "cancel+" + ev if after_op == "Cancel" else after_op
                    if ev == "Cancel":
                        after_op = "Cancel"
            elif ev == "Scan":
                if e["r"]["secrets"] > 0:
                    C["scan_with_secrets/%s" % c["be"]] += 1
            elif ev == "StoreAlias":
                C["store_dequeue_alias/%s/%s" % (c["be"], "shared" if (e["r"]["pl"] or e["r"]["hd"]) else "copied")] += 1
    for k, v in sorted(C.items()):
        ctx.count(k, v)
    return C


def require(C, keys, what):
    missing = [k for k in keys if C.get(k, 0) == 0]
    if missing:
        raise vf.Infra("vacuous run: %s never exercised: %s" % (what, ", ".join(missing[:12])))


def non_vacuity(ctx, C, pcs):
    ok_pcs = [p for p in pcs if p not in OVER_PCS]
    require(C, ["obs/%s/%s/%s" % (p, ch, be) for p in ok_pcs for ch in ("http", "grpc", "push") for be in ("memory", "sqlite")],
            "payload class x channel x backend")
    require(C, ["obs/%s/inproc/%s" % (p, be) for p in ok_pcs for be in ("memory", "sqlite")], "in-process worker call")
    require(C, ["obs_hc/%s/%s" % (h, ch) for h in HCS_ALL if h not in OVER_HCS for ch in ("http", "grpc", "push", "admin-messages")],
            "header class x channel")
    require(C, ["obs_src/%s/%s" % (s, ch) for s in SRCS_ALL for ch in ("http", "grpc", "push")], "source x channel")
    require(C, ["batch/%s/%s/%s" % (b, ch, be) for be in ("memory", "sqlite") for (b, ch) in
                (("one", "http"), ("one", "grpc"), ("alone", "http"), ("alone", "inproc"), ("pair", "http"), ("pair", "grpc"),
                 ("pair", "inproc"), ("alone", "push"), ("pair", "push"))], "store read path (batch 1 / batch alone / batch pair)")
    require(C, ["operator/%s/%s/%s" % (o, f, be) for o in ("Cancel", "Resume", "RequeueMsg") for f in ("id", "filter")
                for be in ("memory", "sqlite")], "operator cancel / resume / requeue by id and by filter")
    require(C, ["obs_after/cancel+%s/%s/%s" % (o, ch, be) for o in ("Resume", "RequeueMsg") for ch in ("http", "grpc", "push")
                for be in ("memory", "sqlite")], "delivery after cancel + resume / requeue")
    require(C, ["cancel_from/queued", "cancel_from/leased", "cancel_from/dead", "lease_extended/http", "lease_extended/grpc"]
            + ["leaseop/%s/%s/%s" % (k, ch, f) for k in ("ack", "nack", "dead") for ch in ("http", "grpc") for f in ("single", "batch")
               if not (k == "ack" and ch == "grpc")], "lease operation forms")
    require(C, ["framing/%s/%s/accepted" % (v, p) for v in ("stream", "chunked", "wire", "handler") for p in ("empty", "maxm1", "max", "big")]
            + ["framing/%s/maxp1/refused" % v for v in ("stream", "chunked", "wire", "handler")], "body framing x size class")
    PUBS = ("publish", "mpublish", "mcp")
    BES = ("memory", "sqlite")
    require(C, ["pubshape/%s/%s/%s" % (src, p, be) for src in PUBS for p in SHAPES_ALL for be in BES]
            + ["pub_bare_after_headers/%s/%s" % (src, be) for src in PUBS for be in BES]
            + ["pub_headers_before_bare/%s/%s" % (src, be) for src in PUBS for be in BES],
            "publish batch shapes x publish path (global, endpoint-scoped, MCP)")
    require(C, ["src/%s/%s/%s/accepted" % (src, be, p) for src in PUBS for be in BES for p in ("empty", "text", "all256", "max", "big")]
            + ["src/%s/%s/maxp1/refused" % (src, be) for src in PUBS for be in BES], "publish path x backend x size class")
    require(C, ["obs_after_other_src/%s/%s" % (src, ch) for src in ("mpublish", "mcp") for ch in ("http", "grpc", "push", "mcp-messages")]
            + ["obs_after_other/%s/%s" % (ch, be) for ch in ("mcp-messages", "mcp-dlq", "admin-dlq") for be in BES]
            + ["dlq_requeue_by/%s/%s" % (by, be) for by in ("admin", "mcp") for be in BES]
            + ["operator_endpoint_scoped/%s/%s" % (o, be) for o in ("Cancel", "Resume", "RequeueMsg") for be in BES],
            "endpoint-scoped and MCP paths after other traffic")
    require(C, ["fan/%s/%s" % (be, p) for be in BES for p in ("text", "all256", "big")]
            + ["fan_other_between_targets/%s" % be for be in BES] + ["fan_obs_after_other/push/%s" % be for be in BES]
            + ["operator_fan/%s" % o for o in ("Cancel", "Resume", "RequeueMsg")], "fan-out to two deliver targets")
    require(C, ["signed/%s/%s" % (be, p) for be in BES for p in ("text", "all256", "big")]
            + ["signed_redelivery/%s" % be for be in BES] + ["signed_with_colliding_names/%s" % be for be in BES]
            + ["signed_after_other/%s" % be for be in BES], "deliveries with sign hmac")
    require(C, ["other/%s/%s/%s" % (k, z, be) for k in OKINDS_ALL for z in ("same", "longer", "shorter") for be in ("memory", "sqlite")]
            + ["other_while/%s" % x for x in ("queued", "leased", "dead", "canceled", "delivered")]
            + ["obs_after_other/%s/%s" % (ch, be) for ch in ("http", "grpc", "inproc", "push", "admin-messages") for be in ("memory", "sqlite")]
            + ["held_result_rechecked/memory", "held_result_rechecked/sqlite"], "unrelated traffic between the steps of a journey")
    require(C, ["restart_with_message", "observed_after_restart", "redelivered_pull", "redelivered_push", "redelivered_after_expiry",
                "lease_expired", "dlq_requeue", "push_after_dlq_requeue", "inproc_result_scribbled", "copy_collision",
                "forward_auth_called", "refused_nothing_stored", "scan_with_secrets/sqlite", "scan_with_secrets/memory"],
            "journey feature")
    require(C, ["sensitive/%s/%s" % (n, c) for n in ("authorization", "proxy-authorization", "cookie")
                for c in ("canon", "lower", "upper", "mixed")], "sensitive header casing on a real connection")
    require(C, ["refused/%s" % p for p in pcs if p in OVER_PCS] + ["refused/hmaxp1", "accepted/pc/max", "accepted/hc/hmax",
                                                                     "accepted/hc/hmaxm1", "accepted/pc/maxm1"], "limit boundary")


# ------------------------------------------------------------------ run / replay

def sample_journey(files):
    for f in files:
        evs = []
        for line in open(f):
            e = json.loads(line)
            if e["ev"] == "Start" and evs:
                break
            evs.append(e)
        if evs:
            st = evs[0]
            return {"kind": "executed journey", "input": st["c"], "payload": st["pl"], "received_fields": st["recv"],
                    "steps": [{"ev": e["ev"], "a": e.get("a"), "r": {k: v for k, v in e.get("r", {}).items() if k not in ("wh",)}}
                              for e in evs[1:8]]}
    return None


def run(ctx):
    vf.build_tool(TOOL)
    quick = ctx.quick
    pcs = PCS_QUICK if quick else PCS_ALL
    # ---- MC and GEN: independent TLC runs, side by side
    w = max(2, vf.NCPU // 2)
    jobs = []
    if quick:
        jobs.append(("mc", lambda: run_mc(ctx, "all-inputs", pcs=PCS_ALL, maxdeq=2, maxatt=2, maxrs=1, maxother=1,
                                          okinds=["handler", "publish"], osizes=["longer"], workers=w)))
        jobs.append(("tour", lambda: gen(ctx, "tour", "tour", pcs=pcs, star=True, maxdeq=9, maxatt=7, maxrs=3, maxother=12, workers=4)))
        jobs.append(("edges", lambda: gen(ctx, "edges", "edges", pcs=["all256"], hcs=["sensmix"], srcs=["ingress"], vias=["handler"],
                                          shapes=["single"], feats=[False], maxdeq=2, maxatt=2, maxrs=1, maxother=1, okinds=["handler"],
                                          osizes=["longer"], workers=4)))
        jobs.append(("sim", lambda: gen(ctx, "sim", "sim", depth=16, simulate=100, pcs=pcs, free=True, maxdeq=8, maxatt=8, maxrs=3,
                                        maxother=6, minend=3)))
    else:
        jobs.append(("mc", lambda: run_mc(ctx, "all-inputs-free", pcs=PCS_ALL, free=True, maxdeq=3, maxatt=3, maxrs=2, timeout=1500,
                                          workers=w)))
        T = dict(maxdeq=9, maxatt=7, maxrs=3, maxother=12, workers=4, timeout=1500)
        jobs.append(("tour", lambda: gen(ctx, "tour", "tour", pcs=pcs, srcs=["ingress", "publish"], feats=[False], star=False, free=False, **T)))
        jobs.append(("tourpub", lambda: gen(ctx, "tourpub", "tour", pcs=["empty", "one", "all256", "text", "max", "maxp1", "big"],
                                            srcs=["mpublish", "mcp"], feats=[False], star=False, free=False, **T)))
        jobs.append(("tourfeat", lambda: gen(ctx, "tourfeat", "tour", pcs=["text", "all256", "empty", "big", "max"],
                                             hcs=["plain", "sigcol", "none", "sensmix"], srcs=["ingress", "publish", "mcp"], modes=["push"],
                                             star=False, free=False, **T)))
        jobs.append(("tourfree", lambda: gen(ctx, "tourfree", "tour", pcs=["text", "all256", "max"], hcs=["none", "sensmix", "collide", "hmax"],
                                             srcs=["ingress", "mpublish"], vias=["handler", "chunked"], feats=[False], star=False, free=True, **T)))
        jobs.append(("edges", lambda: gen(ctx, "edges", "edges", pcs=["all256", "max"], hcs=["none", "sensmix"], srcs=["ingress", "mcp"],
                                          vias=["handler", "chunked"], shapes=["single", "middle"], feats=[False], maxdeq=2, maxatt=2,
                                          maxrs=1, maxother=1, okinds=["handler"], osizes=["longer"], workers=4, timeout=1500)))
        jobs.append(("sim", lambda: gen(ctx, "sim", "sim", depth=24, simulate=1000, pcs=pcs, free=True, maxdeq=12, maxatt=12, maxrs=4,
                                        maxother=10, minend=4, timeout=1500)))
    pool = cf.ThreadPoolExecutor(max_workers=len(jobs))
    futs = [(tag, pool.submit(fn)) for tag, fn in jobs]
    plans = [(tag, f.result()) for tag, f in futs if tag != "mc"]
    mc_future = [f for tag, f in futs if tag == "mc"][0]     # joined after the journeys have been executed
    # ---- EXE (all plans), then TV over a few merged trace files (one JVM start per file)
    all_files, all_scheds = [], []
    t0 = time.time()
    # the journeys sleep a lot (lease expiry, retry delays): overlap the plans, but keep the process count moderate
    with cf.ThreadPoolExecutor(max_workers=len(plans) if quick else 2) as ex:
        done = list(ex.map(lambda p: (p[0], p[1], execute(ctx, p[1], p[0])), plans))
    ctx.cov["mc_runs"].append({"name": "exe", "plans": {tag: len(scheds) for tag, scheds, _ in done}, "secs": round(time.time() - t0, 1)})
    for tag, scheds, (sf, files) in done:
        all_files += files
        all_scheds += scheds
        if len(ctx.cov["samples"]) < 2:
            s = sample_journey(files)
            if s:
                s["generated_by"] = "TLC " + tag
                ctx.sample(s)
    mc_future.result()
    pool.shutdown()
    t0 = time.time()
    merged = merge(ctx, all_files, 6 if quick else vf.NCPU)
    res = validate(ctx, merged, "all")
    ctx.cov["mc_runs"].append({"name": "tv", "files": len(merged), "events": sum(r["total"] for r in res), "secs": round(time.time() - t0, 1)})
    triage(ctx, res, all_scheds)
    # ---- non-vacuity
    C = tally(ctx, merged)
    try:
        non_vacuity(ctx, C, pcs)
    except vf.Infra as e:
        # a confirmed divergence can itself empty a counter (e.g. nothing is refused any more); the verdict stands
        if not ctx.violations:
            raise
        ctx.notes.append("non-vacuity counters incomplete in a run with confirmed divergences: %s" % e)
    shared = sum(v for k, v in C.items() if k.startswith("store_dequeue_alias/") and k.endswith("/shared"))
    if shared:
        ctx.notes.append("informational: queue.Store.Dequeue of the memory backend returns envelopes that share the payload slice and "
                         "header map with the stored message (%d probes); no consumer channel of C07 hands that memory out "
                         "(pull HTTP serialises, the worker server copies, the dispatcher only reads), so this is not a divergence" % shared)
    ctx.assumptions += [
        "byte-level coverage is by class representatives chosen by VERIF_SEED (empty, single bytes, NUL runs, invalid UTF-8, all 256 "
        "byte values, whitespace, text, base64-looking text, max_body-1 / max_body / max_body+1 of a 4 KiB route, 1 MiB, "
        "thorough: 2 MiB = default max_body and 2 MiB+1), not exhaustive over byte strings",
        "header values are valid UTF-8 and valid HTTP field values (the statement's quantifier); names are HTTP tokens",
        "memory and SQLite backends only (no PostgreSQL server in the sandbox); restart is exercised on SQLite only",
        "header names reach hookaido in net/http's canonical form; the harness applies its own canonicaliser in handler mode and "
        "sends raw bytes over the real ingress listener in wire mode (which validates that canonicaliser against net/http)",
        "for published items the spec takes the given map (names written canonically, no sensitive names): the statement's "
        "strip / canonicalise clause speaks about headers received at ingress",
        "push: body compared as received by a loopback target over a real connection; headers compared as put on the request by "
        "the real HTTPDeliverer (recording RoundTripper); the dispatcher's dequeue is gated by a store decorator that touches no data",
        "max_headers is taken as the sum of name and value bytes of the header set that is stored (documented: total header size "
        "including copied forward-auth headers)",
        "forwarding Authorization / Cookie to the configured forward-auth endpoint is the function of forward auth and is not "
        "counted as 'passed on'",
    ]
    vf.write_evidence(ctx, "model_checking", RULE, exhaustive=False)


def replay(ctx, path):
    obj = json.load(open(path))
    vf.build_tool(TOOL)
    ctx.seed = int(obj.get("seed", ctx.seed))
    fails, files = run_one(ctx, obj["schedule"], "replay")
    if not fails:
        print("replay: trace accepted (no divergence)")
        return
    sigs = []
    for f in fails:
        if f[0] not in sigs:
            sigs.append(f[0])
    sig = obj["sig"] if obj.get("sig") in sigs else sigs[0]
    f = next(x for x in fails if x[0] == sig)
    print("replay: %d failed checks, signatures in order: %s" % (len(fails), ", ".join(sigs[:12])))
    vf.report(ctx, sig, "replayed: " + describe(f[1], f[2], f[3]), {"schedule": obj["schedule"], "seed": ctx.seed})
