"""C04 - lease fencing: stale or foreign leases cannot change a message (store level)."""
from checks import queuefam as q

RULE = ("MC: QueueMC (lease + operator families, 2 lease epochs per message) with the action property LeaseFence (a lease call touches "
        "only a message whose CURRENT lease id was presented, an expired one is only requeued) and FailureIsNoop; GEN: every edge of the "
        "bounded abstract graph in which leases are named symbolically (epoch e of message m, unknown, blank, duplicate in a batch) so that "
        "ids of every earlier epoch are presented after expiry, re-dequeue, cancel, requeue; seeded 'lease' driver with padded / blank / "
        "unknown / old-epoch ids, single and batch; executed on memory and SQLite; every event validated by TLC (QueueTrace). L1: the same "
        "lease-heavy schedules THROUGH the Pull API (HTTP) and Worker API (gRPC) of production-wired instances, validated by PullTrace.tla: "
        "204 / 200 / 409 / FailedPrecondition / conflicts-in-body mapping, effect iff current unexpired lease, and the only success of a stale "
        "call is the idempotent answer to a duplicate of an ack (or nack / dead-letter) that succeeded - with no effect. "
        "distinct_nontrivial = validated events.")
PROPS = ["LeaseFence", "FailureIsNoop", "LeaseExclusive", "Conservation"]


def run(ctx):
    c = q.spec_cfg()
    deliv = q.spec_cfg(delivMaxAge=20, pruneInt=10)
    if ctx.quick:
        plan = {"mc": [("fence", c, PROPS, dict(family=("lease", "leasebatch", "operator"), horizon=20, maxep=2, maxins=2))],
                "gen": [("fence", c, dict(family=("lease", "leasebatch", "operator", "restart"), horizon=10, maxep=2, maxins=1, pick="insertion", ttls=(10,), ticks=(10,), delays=(0,)), 4)],
                "drv": [("lease", "lease", 150, 70, {})]}
    else:
        plan = {"mc": [("fence", c, PROPS, dict(family=("lease", "leasebatch", "operator"), horizon=30, maxep=3, maxins=2, timeout=3000)),
                       ("fence_deliv", deliv, PROPS, dict(family=("lease", "leasebatch", "operator", "read"), horizon=30, maxep=2, maxins=2, timeout=3000))],
                "gen": [("fence", c, dict(family=("lease", "leasebatch", "operator"), horizon=20, maxep=2, maxins=2, pick="insertion"), 1),
                        ("fence_deliv", deliv, dict(family=("lease", "leasebatch", "operator"), horizon=20, maxep=2, maxins=1, pick="insertion", ttls=(10,)), 1)],
                "drv": [("lease", "lease", 4000, 90, {})]}
    q.pull_part(ctx, 60 if ctx.quick else 1500, 60, 0)
    q.run_plan(ctx, plan, RULE, assumptions=["the idempotency cache TTL is wall-clock time: it is exercised in two modes, never expiring (1 h) and always expired (1 ns)"])
    nstale = 0
    # non-vacuity: stale presentations must have happened (counted from the driver's trace is costly; the generator guarantees them:
    # LeaseSingle enumerates refs with epoch <= ep+1 and LeaseBatchAct pairs of refs)
    if ctx.cov["counters"].get("gen_schedules", 0) == 0:
        raise __import__("vf").Infra("vacuous: no generated schedules")


def replay(ctx, path):
    q.replay(ctx, path)
