"""C19 - config fmt round-trips: same meaning, stable output.

GEN: TLC enumerates abstract Hookaidofile programs from the feature model spec/ConfigLang.tla (ConfigLangGen.tla):
exhaustively every combination of up to K feature instances per scope (features x spellings x lexical value classes),
route / channel shapes, top-level orders and comment placements, and -simulate for large mixed files.  Every generator
run also model-checks the sanity invariants of the feature model (MC).
EXEC: harness/cmd/hkv-fmt renders every program to text (several layouts per program, renderer independent of
format.go) and observes config.Parse / Format / Compile on the real code.
TV: TLC validates every event against spec/ConfigLangTrace.tla (the abstract program is a well-formed member of the
model; parsed => reparsed, same_ok, same_errors, same_warnings, same_compiled, idempotent).  TLC is the only oracle; the
harness' own tally is only cross-checked against it.
"""
import concurrent.futures as cf
import json
import os
import re
import shutil
import time

import vf

RULE = ("MC+GEN: ConfigLangGen.tla is model-checked by TLC (bounded, exhaustive per scope) for the well-formedness / sanity "
        "invariants of the feature model while it enumerates abstract programs: every combination of <= K feature instances per "
        "scope over all spellings and the lexical value classes of the scope, all route/channel shapes, top-level orders and "
        "comment classes, plus -simulate walks for large mixed files. EXEC: each program is rendered to 2-4 concrete texts "
        "(layout / comment / value variants) and run through the real Parse, Format, Compile. TV: every event is validated by TLC "
        "against ConfigLangTrace.tla (program is a well-formed member of the model, parser accepts it, and parsed => reparsed, "
        "same_ok, same_errors, same_warnings, same_compiled, idempotent). evaluations = events; distinct_nontrivial = distinct "
        "rendered texts (sha-256) that the real parser accepted. The oracle is differential on the real code, not a semantics "
        "of the language in TLA+.")

CHECKS = ["reparsed", "same_ok", "same_errors", "same_warnings", "same_compiled", "idempotent"]
MODEL_CHECKS = ["rendered", "wf", "tag", "emitted", "parses", "deterministic"]   # failures here are model / harness defects
INVS = ["WellFormed", "UniquePaths", "DupSeeded", "ClosedUnderParents", "Bounded", "TagSound", "WrapperShape"]

RE_PROG = re.compile(r'^<<"PROG", "([a-z]+)", "(.*)">>$')
RE_TABLE = re.compile(r'^<<"(TABLE|CLASSES)", "(.*)">>$')

ALL_CHFORMS = {("bare", "bare"), ("inbound", "single"), ("inbound", "wrapper"), ("inbound", "wrapjoin"),
               ("outbound", "single"), ("outbound", "wrapper"), ("outbound", "wrapjoin"),
               ("internal", "single"), ("internal", "wrapper"), ("internal", "wrapjoin")}
PATH_CHFORMS = {("bare", "bare"), ("outbound", "single"), ("internal", "wrapper"), ("internal", "wrapjoin")}


# ---------------------------------------------------------------- model export

def load_model(ctx):
    """Feature table and class sets, exported by TLC from ConfigLang.tla (ConfigLangTable.tla)."""
    d = vf.spec_dir(ctx, "table")
    open(os.path.join(d, "Table.cfg"), "w").write("\n")
    rc, out, secs = vf.run_java_tlc(d, "ConfigLangTable.tla", "Table.cfg", workers=1, timeout=120, heap="1g")
    got = {}
    for line in out.splitlines():
        m = RE_TABLE.match(line)
        if m:
            got[m.group(1)] = json.loads(json.loads('"' + m.group(2) + '"'))
    if "TABLE" not in got or "CLASSES" not in got:
        raise vf.Infra("ConfigLangTable: no table printed\n" + "\n".join(out.splitlines()[-20:]))
    path = os.path.join(ctx.scratch, "table.json")
    json.dump(got["TABLE"], open(path, "w"))
    return got["TABLE"], got["CLASSES"], path


class Model:
    def __init__(self, table, classes):
        self.table = table
        self.classes = classes
        self.ids = [f["id"] for f in table]
        self.by = {f["id"]: f for f in table}
        self.vc = set(classes["vc"])
        self.vc2 = set(classes["vc2"])

    def root(self, f):
        while self.by[f]["par"] not in ("top", "route"):
            f = self.by[f]["par"]
        return self.by[f]["par"]

    def under(self, *prefixes):
        return {i for i in self.ids if any(i == p or i.startswith(p + ".") for p in prefixes)}

    def valued(self):
        """(feature, spelling) pairs that carry a value, per ConfigLang!UsesV."""
        out = {}
        for f in self.table:
            for sp in f["sps"]:
                if f["kind"] != "none" and (sp not in f["blk"] or f["id"] in ("r.auth_forward", "r.deliver", "secrets.secret")):
                    out.setdefault(f["id"], set()).add(sp)
        return out


# ---------------------------------------------------------------- generator plans

def consts(m, **kw):
    c = dict(Scope=set(m.ids), VC1={"bare"}, VC2={"bare"}, SpMode="all", NMax=2, IMax=2, K=1, GenDepth=0, MinR=1, MaxR=1,
             ChForms={("bare", "bare")}, PqSet={"bare"}, ErrSet={"none"}, Bases={"pull"}, Orders={"canon"}, Cms={"none"},
             NmScope=set(), NmVC={"bare"})
    c.update(kw)
    return c


def plans(ctx, m):
    """List of generator runs: dict(name, consts, nv = renderings per program, sim = (num, depth) or None, w = TLC workers)."""
    deliver = m.under("r.deliver", "defaults.deliver", "defaults.egress", "secrets") | {"r.deliver_concurrency"}
    route = {i for i in m.ids if m.root(i) == "route"}
    top = set(m.ids) - route
    ingress_side = route - m.under("r.deliver") - {"r.deliver_concurrency"}
    tops = {i for i in top if m.by[i]["par"] == "top"}
    auth = m.under("r.auth_hmac", "r.auth_forward", "r.auth_basic", "r.publish", "r.publish_mix", "r.queue", "r.pull", "r.match_ref")
    allvc, allvc2 = m.vc, m.vc2
    noblank = allvc - {"empty", "blank", "ph_unset", "bad"}
    orders, cms = set(m.classes["order"]), set(m.classes["cm"])
    P = []
    ctxfeat = {"r.pull", "r.pull.path", "r.pull.auth_token", "r.deliver", "pull_api", "pull_api.auth_token"}   # occupied by the base contexts
    if ctx.quick:
        P.append(dict(name="val-pull", nv=3, w=6, consts=consts(m, Scope=set(m.ids) - m.under("r.deliver") - {"r.deliver_concurrency"},
                                                            VC1=allvc, VC2={"bare", "blank", "kwq", "ph_env", "brace", "ctrl"})))
        P.append(dict(name="val-deliver", nv=3, w=3, consts=consts(m, Scope=deliver | m.under("pull_api"), VC1=allvc,
                                                               VC2={"bare", "blank", "kwq", "esc", "brace", "ctrl"}, Bases={"deliver"})))
        P.append(dict(name="val-none", nv=2, w=2, consts=consts(m, Scope=ctxfeat, VC1=allvc, VC2=allvc2, Bases={"none"})))
        P.append(dict(name="val-vars", nv=2, w=2, consts=consts(m, VC1={"vars"}, VC2={"vars", "bare"}, Bases={"pullv", "deliverv"}, SpMode="default")))
        P.append(dict(name="pairs-route", nv=2, w=6, consts=consts(m, Scope=ingress_side, VC1={"bare", "blank"}, K=2)))
        P.append(dict(name="pairs-deliver", nv=2, w=4, consts=consts(m, Scope=m.under("r.deliver", "secrets") | {"r.deliver_concurrency"},
                                                                 VC1={"bare", "quoted"}, K=2, Bases={"deliver"})))
        P.append(dict(name="triples-auth", nv=2, w=4, consts=consts(m, Scope=auth, VC1={"bare"}, K=3, NMax=2)))
        # near-miss programs: one setting spelled twice (parse verdict observed, not predicted)
        P.append(dict(name="nm-route", nv=2, w=4, consts=consts(m, Scope=ingress_side, VC1={"bare", "bad"}, K=1, NMax=1, NmScope=set(m.ids),
                                                            Bases={"pull", "none"})))
        P.append(dict(name="nm-deliver", nv=2, w=2, consts=consts(m, Scope=m.under("r.deliver", "secrets", "vars") | {"matcher", "r.deliver_concurrency"},
                                                              VC1={"bare", "bad"}, K=1, NMax=1, IMax=1, Bases={"deliver"}, NmScope=set(m.ids))))
        P.append(dict(name="nm-top", nv=2, w=4, consts=consts(m, Scope=top - m.under("defaults.trend_signals"), VC1={"bare"}, K=1, NMax=1, IMax=1,
                                                          SpMode="default", NmScope=set(m.ids))))
        P.append(dict(name="channels", nv=2, w=4, consts=consts(m, Scope={"r.publish", "r.application", "ingress"}, K=1, MinR=0, MaxR=3,
                                                            ChForms=ALL_CHFORMS, ErrSet={"none", "dup_path"}, Bases={"auto"}, SpMode="default",
                                                            Orders={"shuffle"})))
        P.append(dict(name="paths", nv=2, w=2, consts=consts(m, Scope={"r.auth_basic"}, K=1, MinR=1, MaxR=2, ChForms=PATH_CHFORMS,
                                                         PqSet=set(m.classes["pq"]), Bases={"auto"}, SpMode="default")))
        P.append(dict(name="layout", nv=2, w=3, consts=consts(m, Scope=tops, K=1, MinR=2, MaxR=2, ChForms={("bare", "bare"), ("outbound", "single")},
                                                          Bases={"auto"}, Orders=orders, Cms=cms, SpMode="default")))
        P.append(dict(name="layout2", nv=2, w=3, consts=consts(m, Scope=tops, K=2, MinR=2, MaxR=2, ChForms={("bare", "bare"), ("internal", "wrapper")},
                                                           Bases={"auto"}, Orders={"shuffle", "reverse", "interleave"}, Cms={"all", "none"},
                                                           SpMode="default")))
        for k, (vc1, base) in enumerate(((allvc, {"auto"}), (noblank, {"auto"}), (noblank, {"none", "pull"}))):
            P.append(dict(name="sim%d" % k, nv=2, w=1, k=k, sim=(200, 10 + 4 * k),
                          consts=consts(m, VC1=vc1, VC2=allvc2 & vc1 | {"bare"}, MinR=1, MaxR=3, ChForms=ALL_CHFORMS, PqSet=set(m.classes["pq"]),
                                        Bases=base, Orders=orders, Cms=cms)))
    else:
        P.append(dict(name="val-pull", nv=3, w=8, consts=consts(m, Scope=set(m.ids) - m.under("r.deliver") - {"r.deliver_concurrency"},
                                                            VC1=allvc, VC2=allvc2)))
        P.append(dict(name="val-deliver", nv=3, w=4, consts=consts(m, Scope=deliver, VC1=allvc, VC2=allvc2, Bases={"deliver"})))
        P.append(dict(name="val-none", nv=2, w=4, consts=consts(m, VC1=allvc, VC2={"bare", "blank"}, Bases={"none"})))
        P.append(dict(name="val-vars", nv=2, w=4, consts=consts(m, VC1={"vars", "ph_file", "bare"}, VC2={"vars", "bare"}, K=2, NMax=1,
                                                            Scope=ingress_side | m.under("vars", "defaults.egress", "pull_api", "secrets"),
                                                            Bases={"pullv"}, SpMode="default")))
        P.append(dict(name="val-vars-d", nv=2, w=4, consts=consts(m, VC1={"vars", "bare"}, VC2={"vars", "bare"}, K=2, Scope=deliver | m.under("vars"),
                                                              Bases={"deliverv"})))
        P.append(dict(name="val-ctx", nv=3, w=2, consts=consts(m, Scope=ctxfeat, VC1=allvc, VC2=allvc2, K=1, Bases={"none"})))
        P.append(dict(name="val-ctx2", nv=2, w=4, consts=consts(m, Scope=ctxfeat, VC1={"bare", "quoted", "blank", "ph_env", "esc"}, VC2={"bare", "blank"},
                                                            K=2, Bases={"none"})))
        P.append(dict(name="pairs-route", nv=2, w=10, consts=consts(m, Scope=ingress_side, VC1={"bare", "quoted", "blank", "kw", "ph_env"}, K=2)))
        P.append(dict(name="pairs-deliver", nv=2, w=6, consts=consts(m, Scope=m.under("r.deliver", "secrets", "defaults.deliver") | {"r.deliver_concurrency"},
                                                                 VC1={"bare", "quoted", "blank"}, K=2, Bases={"deliver"})))
        P.append(dict(name="pairs-top", nv=2, w=8, consts=consts(m, Scope=top, VC1={"bare", "blank"}, K=2, NMax=1)))
        P.append(dict(name="triples-route", nv=2, w=10, consts=consts(m, Scope=ingress_side, VC1={"bare"}, K=3, NMax=1)))
        P.append(dict(name="triples-auth", nv=2, w=8, consts=consts(m, Scope=auth, VC1={"bare", "blank"}, K=3, NMax=1)))
        P.append(dict(name="nm-route", nv=2, w=8, consts=consts(m, Scope=auth, VC1={"bare"}, K=2, NMax=1, SpMode="default", NmScope=set(m.ids))))
        P.append(dict(name="nm-route1", nv=3, w=6, consts=consts(m, Scope=ingress_side, VC1={"bare", "bad", "blank", "ctrl"}, K=1,
                                                             NmScope=set(m.ids), NmVC={"bare", "bad", "quoted", "blank"}, Bases={"pull", "none"})))
        P.append(dict(name="nm-deliver", nv=2, w=6, consts=consts(m, Scope=m.under("r.deliver", "secrets", "vars", "defaults.deliver") | {"matcher", "r.deliver_concurrency"},
                                                              VC1={"bare"}, K=2, NMax=1, Bases={"deliver"}, SpMode="default", NmScope=set(m.ids),
                                                              NmVC={"bare", "bad"})))
        P.append(dict(name="nm-top", nv=2, w=6, consts=consts(m, Scope=top, VC1={"bare", "bad"}, K=1, NmScope=set(m.ids), NmVC={"bare", "bad"})))
        P.append(dict(name="channels", nv=2, w=8, consts=consts(m, Scope={"r.publish", "r.auth_basic", "ingress"}, K=1, MinR=0, MaxR=3,
                                                            ChForms=ALL_CHFORMS, ErrSet={"none", "dup_path"},
                                                            Bases={"auto"}, SpMode="default", Orders={"shuffle"})))
        P.append(dict(name="channels2", nv=2, w=6, consts=consts(m, Scope={"r.publish", "ingress"}, K=1, MinR=2, MaxR=2,
                                                             ChForms=ALL_CHFORMS, PqSet={"bare", "quoted", "qph"}, ErrSet={"none", "dup_path"},
                                                             Bases={"auto", "none"}, SpMode="default", Orders={"canon", "interleave"})))
        P.append(dict(name="paths", nv=2, w=4, consts=consts(m, Scope={"r.auth_basic", "r.publish"}, K=2, MinR=1, MaxR=2, ChForms=PATH_CHFORMS,
                                                         PqSet=set(m.classes["pq"]), Bases={"auto", "none"}, SpMode="default")))
        P.append(dict(name="layout", nv=2, w=8, consts=consts(m, Scope=tops | {"ingress.listen", "vars.item", "secrets.secret"}, K=2, MinR=1, MaxR=2,
                                                          ChForms={("bare", "bare"), ("outbound", "single"), ("internal", "wrapper")},
                                                          Bases={"auto"}, Orders=orders, Cms=cms, SpMode="default")))
        k = 0
        for vc1 in (allvc, noblank):
            for base in ({"auto"}, {"none", "pull", "deliver"}):
                for depth in (8, 16, 28):
                    P.append(dict(name="sim%d" % k, nv=2, w=1, k=k, sim=(1200, depth),
                                  consts=consts(m, VC1=vc1, VC2=allvc2 & vc1 | {"bare"}, MinR=1, MaxR=3, ChForms=ALL_CHFORMS,
                                                PqSet=set(m.classes["pq"]), Bases=base, Orders=orders, Cms=cms)))
                    k += 1
    return P


def run_gen(ctx, plan, seed):
    """One generator run (also a model-checking run of the feature model).  Returns (programs file, stats)."""
    c = dict(plan["consts"])
    extra = []
    sim = plan.get("sim")
    workers = plan.get("w", 4)
    if sim:
        c["GenDepth"] = sim[1]
        c["K"] = sim[1]
        extra = ["-simulate", "num=%d" % sim[0], "-depth", str(3 * sim[1] + 12), "-seed", str(seed * 1000 + plan.get("k", 0))]
        workers = 1
    t0 = time.time()
    r = vf.mc_run(ctx, "c19-" + plan["name"], "ConfigLangGen", c, {}, invariants=INVS, spec="GenSpec", workers=workers,
                  timeout=1500 if not ctx.quick else 600, heap="6g" if not ctx.quick else "3g", extra=extra)
    out = r.pop("out")
    if r["violated"] or r["error"] or (not sim and not r["ok"]):
        raise vf.Infra("ConfigLangGen/%s: model checking of the feature model failed (%s)\n%s" % (
            plan["name"], r["violated"] or r["error"], "\n".join(l for l in out.splitlines() if not l.startswith('<<"PROG"'))[-3000:]))
    path = os.path.join(ctx.scratch, "progs-%s.ndjson" % plan["name"])
    n = 0
    with open(path, "w") as f:
        for line in out.splitlines():
            mm = RE_PROG.match(line)
            if not mm:
                continue
            p = json.loads(json.loads('"' + mm.group(2) + '"'))
            f.write(json.dumps({"id": "%s-%06d" % (plan["name"], n), "tag": mm.group(1), "p": p, "nv": plan["nv"]}) + "\n")
            n += 1
    tail_of_out = out[-3000:]
    del out
    empties = (len(c["Orders"]) * len(c["Cms"]) * len(c["ErrSet"]) * len(c["Bases"])) if c["MinR"] == 0 else 0
    if not sim and not (r["distinct"] - empties <= n <= r["distinct"]):
        raise vf.Infra("ConfigLangGen/%s: %d programs printed but %d distinct states (generator is not a tree)" % (plan["name"], n, r["distinct"]))
    if n == 0:
        raise vf.Infra("ConfigLangGen/%s generated no program" % plan["name"])
    if sim:
        mm = re.search(r"The number of states generated: (\d+)", tail_of_out)
        if mm:
            r["generated"] = r["distinct"] = int(mm.group(1))   # states visited by the random walks (not de-duplicated by TLC)
    st = {"name": "gen-" + plan["name"], "distinct": r["distinct"], "generated": r["generated"], "programs": n, "depth": r["depth"],
          "mode": "simulate" if sim else "exhaustive", "secs": round(time.time() - t0, 1)}
    return path, st


# ---------------------------------------------------------------- execution + validation

def execute(ctx, table_path, progs, tag, shard):
    out = os.path.join(ctx.shm, "ev-" + tag)
    stdout = vf.tool("hkv-fmt", ["run", "-table", table_path, "-progs", progs, "-out", out, "-variants", "2", "-seed", str(ctx.seed),
                                 "-shard", str(shard), "-scratch", os.path.join(ctx.shm, "scr-" + tag)], timeout=1500)
    return json.loads(stdout.strip().splitlines()[-1])


def validate(ctx, files, name):
    res = vf.tv_run(ctx, files, module="ConfigLangTrace", name=name, timeout=1500, heap="3g")
    for r in res:
        if r["error"]:
            raise vf.Infra("trace validation error in %s: %s\n%s" % (r["file"], r["error"], r.get("out_tail", "")))
        if r["matched"] != r["total"]:
            raise vf.Infra("trace validation consumed %d of %d lines of %s\n%s" % (r["matched"], r["total"], r["file"], r.get("out_tail", "")))
    return res


def signature(check, e):
    """fmt/<check>/<directive>[_blank]: the directive is the AST path (indices dropped) of the first difference between
    Parse(text) and Parse(Format(text)); without such a difference, the last feature of the program and its value class."""
    attr = e.get("attr") or ""
    if attr in ("", "no_ast_diff"):
        items = e["p"]["items"]
        attr = "no_ast_diff"
        if items:
            f = items[-1]["f"]
            attr = (f[2:] if f.startswith("r.") else f).replace(".", "_") + "_" + items[-1]["v"].replace("-", "none")
    elif e.get("attr_blank"):
        attr += "_blank"
    return "fmt/%s/%s" % (check, attr)


def lines_of(path, wanted):
    out = {}
    with open(path) as f:
        for i, raw in enumerate(f, 1):
            if i in wanted:
                out[i] = json.loads(raw)
    return out


def triage(ctx, table_path, results):
    """FAIL lines -> model/harness defects (Infra) or reproduced, shrunk, signed divergences of the real code."""
    groups = {}
    model_fails = []
    tv_count = {}
    for r in results:
        if not r["fails"]:
            continue
        wanted = {}
        for (line, ev, check) in r["fails"]:
            wanted.setdefault(line, []).append(check)
            tv_count[check] = tv_count.get(check, 0) + 1
        evs = lines_of(r["file"], wanted)
        for line, checks in wanted.items():
            e = evs[line]
            for check in checks:
                if check in MODEL_CHECKS:
                    if len(model_fails) < 5:
                        model_fails.append((check, e.get("id"), e.get("parse_err") or e.get("render_err") or "", e.get("text", "")[:600],
                                            json.dumps(e.get("p"))[:900]))
                    continue
                key = (check, e.get("attr", ""), bool(e.get("attr_blank")))
                size = len(e["p"]["items"]) + 3 * len(e["p"]["routes"]) + (0 if e["p"]["cm"] == "none" else 1)
                if key not in groups or size < groups[key][0]:
                    groups[key] = (size, e)
    if model_fails:
        raise vf.Infra("feature model / renderer defect (not a verdict about hookaido): %d failures of %s; first: %s" % (
            sum(tv_count.get(c, 0) for c in MODEL_CHECKS), [c for c in MODEL_CHECKS if tv_count.get(c)], model_fails[:2]))
    if not groups:
        return tv_count
    ctx.count("divergence_groups", len(groups))
    tdir = ctx.sub("triage")

    def shrink(item):
        k, (key, (size, e)) = item
        check = key[0]
        src = os.path.join(tdir, "fail-%03d.json" % k)
        json.dump(e, open(src, "w"))
        dst = os.path.join(tdir, "shrunk-%03d.ndjson" % k)
        again = os.path.join(tdir, "again-%03d.ndjson" % k)
        scr = os.path.join(ctx.shm, "scr-triage-%03d" % k)
        info = json.loads(vf.tool("hkv-fmt", ["shrink", "-table", table_path, "-in", src, "-check", check, "-out", dst, "-scratch", scr,
                                              "-budget", "1500"], timeout=300).strip().splitlines()[-1])
        vf.tool("hkv-fmt", ["one", "-table", table_path, "-in", src, "-out", again, "-scratch", scr], timeout=120)
        return k, key, e, info, (dst if info.get("reproduced") else None), again

    with cf.ThreadPoolExecutor(max_workers=vf.NCPU) as ex:
        shrunk = list(ex.map(shrink, enumerate(sorted(groups.items(), key=lambda kv: str(kv[0])))))
    # one batch through TLC: line 2k+1 = re-execution of the original event, line 2k+2 = shrunk program (or the original again)
    batch = os.path.join(tdir, "batch.ndjson")
    with open(batch, "w") as f:
        for (k, key, e, info, dst, again) in shrunk:
            f.write(open(again).read().strip() + "\n")
            f.write(open(dst if dst else again).read().strip() + "\n")
    rr = vf.tv_run(ctx, [batch], module="ConfigLangTrace", name="tv-triage", timeout=600)[0]
    if rr["error"] or rr["matched"] != rr["total"]:
        raise vf.Infra("trace validation of the reproduction batch failed: %s\n%s" % (rr["error"], rr.get("out_tail", "")))
    failed = {}
    for (line, ev, check) in rr["fails"]:
        failed.setdefault(line, set()).add(check)
    bevs = vf.load_trace(batch)
    reported = 0
    for (k, key, e, info, dst, again) in shrunk:
        check = key[0]
        orig_fails, small_fails = failed.get(2 * k + 1, set()), failed.get(2 * k + 2, set())
        if check in small_fails and not (small_fails & set(MODEL_CHECKS)):
            chosen = bevs[2 * k + 1]
        elif check in orig_fails:
            chosen = bevs[2 * k]
        else:
            raise vf.Infra("divergence %s of program %s did not reproduce on re-execution" % (key, e.get("id")))
        sig = signature(check, chosen)
        text = "check '%s' fails (%s) for this Hookaidofile: %s" % (check, chosen.get("diff", "")[:500], json.dumps(chosen["text"])[:700])
        if vf.report(ctx, sig, text, {"check": check, "event": chosen, "first_seen": {"id": e.get("id"), "variant": e.get("variant"), "seed": e.get("seed")}}):
            reported += 1
        ctx.count("signatures_seen")
    return tv_count


# ---------------------------------------------------------------- non-vacuity

def non_vacuity(ctx, m, s, quick):
    problems = []
    feat, featsp, featv, featv2, dims = s["feat"], s["feat_sp"], s["feat_v"], s["feat_v2"], s["dims"]
    missing = [f for f in m.ids if not feat.get(f)]
    if missing:
        problems.append("features never in a parsed program: %s" % missing[:10])
    miss_sp = ["%s|%s" % (f["id"], sp) for f in m.table for sp in f["sps"] if not featsp.get("%s|%s" % (f["id"], sp))]
    if miss_sp:
        problems.append("spellings never in a parsed program: %s" % miss_sp[:10])
    valued = m.valued()
    miss_v = []
    for f, sps in valued.items():
        classes = {"bare"} if m.by[f]["kind"] == "mref" else m.vc
        miss_v += ["%s|%s" % (f, v) for v in classes if not featv.get("%s|%s" % (f, v))]
    if miss_v:
        problems.append("feature x value class never in a parsed program: %d, e.g. %s" % (len(miss_v), miss_v[:10]))
    multi = [f["id"] for f in m.table if f["nmax"] > 1]
    miss_n = [f for f in multi if not dims.get("n2:" + f)]
    if miss_n:
        problems.append("multi-value directives never with two values: %s" % miss_n[:10])
    v2seen = {k.split("|")[1] for k in featv2}
    if m.vc2 - v2seen:
        problems.append("second-value classes never parsed: %s" % sorted(m.vc2 - v2seen))
    for dim, key in (("cm", "cm"), ("order", "order"), ("err", "err"), ("ch", "ch"), ("form", "form"), ("pq", "pq")):
        miss = [c for c in m.classes[key] if not dims.get("%s:%s" % (dim, c))]
        if miss:
            problems.append("%s classes never parsed: %s" % (dim, miss))
    for n in (0, 1, 2, 3):
        if not dims.get("routes:%d" % n):
            problems.append("no parsed program with %d routes" % n)
    if s["valid"] < 500 or s["invalid"] < 500:
        problems.append("validity sides not populated: valid=%d invalid=%d" % (s["valid"], s["invalid"]))
    if s["with_warnings"] < 50:
        problems.append("fewer than 50 programs with warnings")
    if s["parsed"] - s["nm_parsed"] < 0.98 * (s["events"] - s["nm_events"]):
        problems.append("only %d of %d events (near-miss programs aside) parsed" % (s["parsed"] - s["nm_parsed"], s["events"] - s["nm_events"]))
    # near-miss programs: both verdicts of the parser must occur, and the families of DESIGN A.7 must be there
    if s["nm_rejected"] < 200 or s["nm_parsed"] < 200:
        problems.append("near-miss programs: %d refused / %d accepted by the parser" % (s["nm_rejected"], s["nm_parsed"]))
    nm_want = ["r.publish|short", "r.publish|block", "r.publish|dot", "r.publish.direct|-", "r.publish_mix|-", "r.queue|short", "r.queue|block",
               "r.auth_forward|short", "r.auth_forward|block", "r.auth_hmac|block", "obs.metrics|short", "obs.metrics|block",
               "obs.tracing|short", "obs.tracing|block", "obs.access_log|short", "obs.access_log|block", "obs.runtime_log|short",
               "obs.runtime_log|block", "r.max_body|-", "r.pull|block", "r.match|block", "ingress|block", "ingress.listen|-",
               "r.deliver.sign_ref|line", "r.deliver.sign_hmac|-", "r.deliver.timeout|-", "r.deliver.retry|t"]
    miss = [k for k in nm_want if not dims.get("nm:" + k)]
    if miss:
        problems.append("near-miss families never generated: %s" % miss)
    ctx.count("features_covered", len(m.ids) - len(missing))
    ctx.count("features_total", len(m.ids))
    ctx.count("spellings_covered", sum(len(f["sps"]) for f in m.table) - len(miss_sp))
    ctx.count("feature_x_valueclass_covered", sum(len({"bare"} if m.by[f]["kind"] == "mref" else m.vc) for f in valued) - len(miss_v))
    if problems:
        raise vf.Infra("vacuous run: " + "; ".join(problems))


# ---------------------------------------------------------------- entry points

def run(ctx):
    vf.build_tool("hkv-fmt")
    table, classes, table_path = load_model(ctx)
    m = Model(table, classes)
    P = plans(ctx, m)
    # generator / model-checking runs in parallel (bounded by the worker budget)
    t0 = time.time()
    budget = vf.NCPU + 4
    P.sort(key=lambda p: -p.get("w", 4))
    files, stats = [], []
    with cf.ThreadPoolExecutor(max_workers=8) as ex:
        pending = list(P)
        running = {}
        used = 0
        while pending or running:
            while pending and (used + pending[0].get("w", 4) <= budget or not running):
                pl = pending.pop(0)
                fut = ex.submit(run_gen, ctx, pl, ctx.seed)
                running[fut] = pl
                used += pl.get("w", 4)
            done, _ = cf.wait(list(running), return_when=cf.FIRST_COMPLETED)
            for fut in done:
                pl = running.pop(fut)
                used -= pl.get("w", 4)
                path, st = fut.result()
                if os.environ.get("VERIF_DEBUG"):
                    print("gen", st, "t=%.0f" % (time.time() - ctx.t0), flush=True)
                files.append(path)
                stats.append(st)
    for st in sorted(stats, key=lambda s: s["name"]):
        ctx.cov["mc_runs"].append(st)
        ctx.cov["states"] += st["distinct"]
        ctx.cov["transitions"] += st["generated"]
        ctx.count("gen_programs", st["programs"])
        if st["mode"] == "exhaustive":
            ctx.count("gen_programs_exhaustive", st["programs"])
    ctx.notes.append("generation %.0fs" % (time.time() - t0))
    progs = os.path.join(ctx.scratch, "progs-all.ndjson")
    with open(progs, "w") as out:
        for fpath in sorted(files):
            with open(fpath) as f:
                shutil.copyfileobj(f, out)
    t0 = time.time()
    s = execute(ctx, table_path, progs, "main", 6000 if ctx.quick else 12000)
    ctx.notes.append("execution %.0fs" % (time.time() - t0))
    t0 = time.time()
    res = validate(ctx, s["shards"], "tv-main")
    ctx.notes.append("trace validation %.0fs" % (time.time() - t0))
    ctx.cov["traces_validated_against_impl"] += sum(r["matched"] for r in res)
    ctx.cov["schedules_executed"] += s["events"]
    for k in ("programs", "events", "parsed", "not_parsed", "valid", "invalid", "with_warnings", "distinct_texts", "distinct_parsed_texts",
              "nil_vs_empty_only", "func_fields", "nondet", "render_errors", "emitted_mismatch", "nm_events", "nm_parsed", "nm_rejected"):
        ctx.count(k, s[k])
    for k, v in sorted(s["tag_ok"].items()):
        ctx.count("tag/observed_ok " + k, v)
    ctx.cov["evaluations"] = s["events"]
    ctx.cov["distinct_nontrivial"] = s["distinct_parsed_texts"]
    for smp in s["samples"][:2]:
        ctx.sample(smp)
    tv_count = triage(ctx, table_path, res)
    for c in CHECKS:
        ctx.count("tv_fail " + c, tv_count.get(c, 0))
        if tv_count.get(c, 0) != s["fail_by_check"].get(c, 0):
            raise vf.Infra("oracle cross-check: TLC flagged %d x %s, the harness tally says %d" % (tv_count.get(c, 0), c, s["fail_by_check"].get(c, 0)))
    if s["func_fields"]:
        ctx.assumptions.append("function-typed fields inside config.Compiled are not compared (%d met)" % s["func_fields"])
    if s["tag_ok"].get("valid/false", 0) or s["tag_ok"].get("invalid/true", 0):
        ctx.notes.append("coverage tag of the model disagrees with Compile on %d events (tag is accounting only); e.g. %s" % (
            s["tag_ok"].get("valid/false", 0) + s["tag_ok"].get("invalid/true", 0), json.dumps(s.get("tag_mismatch_samples", [])[:2])[:900]))
    non_vacuity(ctx, m, s, ctx.quick)
    ctx.assumptions += [
        "the oracle is differential on the real code (Compile before vs after Format); ConfigLang.tla generates programs and does not define what a Hookaidofile means",
        "config.Compiled contains no function values (checked: func_fields counter); nil and empty slices/maps are identified; errors and warnings are compared as sets",
        "environment variables and {file.*} targets referenced by generated placeholders are created by the tool and unchanged between the two compilations",
        "vars cycles of length >= 2 are not generated (their error text depends on map iteration order); every event is checked for a deterministic Compile",
        "comments after the first statement are not preserved by design; meaning and idempotence are compared, not comment text",
        "near-miss programs (one setting spelled twice) are generated without predicting the parser's verdict; those it refuses are vacuous for the property and counted (nm_rejected)",
        "bounds: <= K feature instances per exhaustive scope (see mc_runs), <= 2 values per multi-value directive, <= 3 routes, <= 2 deliver targets / secrets / matchers / vars",
    ]
    vf.write_evidence(ctx, "model_checking", RULE, exhaustive=False)


def replay(ctx, path):
    obj = json.load(open(path))
    vf.build_tool("hkv-fmt")
    table, classes, table_path = load_model(ctx)
    src = os.path.join(ctx.scratch, "replay-in.json")
    json.dump(obj["event"], open(src, "w"))
    out = os.path.join(ctx.scratch, "replay-ev.ndjson")
    print(vf.tool("hkv-fmt", ["one", "-table", table_path, "-in", src, "-out", out, "-print", "-scratch", os.path.join(ctx.shm, "scr-replay")]))
    rr = vf.tv_run(ctx, [out], module="ConfigLangTrace", name="tv-replay")[0]
    if rr["error"] or rr["matched"] != rr["total"]:
        raise vf.Infra("trace validation of the replay failed: %s\n%s" % (rr["error"], rr.get("out_tail", "")))
    fails = {c for (_, _, c) in rr["fails"]}
    for c in sorted(fails):
        print("check '%s' failed" % c)
    if obj["check"] in fails:
        ev = vf.load_trace(out)[0]
        vf.report(ctx, obj["sig"], "replayed: " + obj.get("text", ""), {"check": obj["check"], "event": ev})
    else:
        print("replay: trace accepted (no divergence)")
