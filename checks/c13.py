"""C13 - queue backends are observationally equivalent (memory vs SQLite)."""
from checks import queuefam as q

RULE = ("The SAME schedules (TLC-generated: every edge of the bounded abstract graph; seeded driver schedules over all Store operations with "
        "arbitrary arguments: filters, limits 0/-1/1001/5000, before-cursors on tie timestamps, blank / padded / duplicate ids, zero / "
        "negative durations and TTLs, every limits / retention configuration) are executed on the real memory and SQLite stores with the same "
        "fake clock, and BOTH traces are validated by TLC against ONE reference contract (Queue.tla with no backend deviation enabled: "
        "C.dev = {}). The contract is deterministic up to the documented choice points (which equally eligible messages a dequeue takes, ties "
        "on received_at, order of the conflict list, which applicable refusal reason is reported) and the documented backend constants "
        "(memory-pressure guard, delivered-retention depth guard, 10 ms sweep granularity), so two accepted traces of one schedule can differ "
        "only there. distinct_nontrivial = validated events.")
FAM_ALL = ("lease", "leasebatch", "deqvar", "operator", "filter", "admission", "read")


def run(ctx):
    drop = q.spec_cfg(maxDepth=2, drop="drop_oldest")
    ret = q.spec_cfg(maxDepth=2, drop="reject", retMaxAge=20, pruneInt=10, delivMaxAge=20, dlqMaxAge=20, dlqMaxDepth=1)
    if ctx.quick:
        plan = {"gen": [("eq", ret, dict(family=("lease", "admission", "read"), horizon=10, maxep=1, maxins=2, pick="insertion",
                                         ttls=(10,), ticks=(10,), delays=(0,)), 1)],
                "drv": [("all", "all", 100, 60, dict(churn_every=50)), ("adm", "admission", 50, 60, {}), ("time", "time", 50, 60, {}), ("aux", "aux", 60, 90, {})]}
    else:
        plan = {"gen": [("eq_ret", ret, dict(family=FAM_ALL, horizon=20, maxep=1, maxins=2, pick="insertion", ttls=(10,)), 1),
                        ("eq_drop", drop, dict(family=FAM_ALL, horizon=20, maxep=2, maxins=2, pick="insertion"), 1)],
                "drv": [("all", "all", 2500, 80, dict(big_every=40)), ("adm", "admission", 1000, 80, {}), ("time", "time", 1000, 80, {}),
                        ("oper", "operator", 800, 80, dict(big_every=40)), ("aux", "aux", 1500, 120, {})],
                "gen_cap": 80000}   # measured: 396k / 686k edge schedules; 42 min with a cap of 120000
    q.aux_mc(ctx)
    q.run_plan(ctx, plan, RULE, reference=True,
               assumptions=["PostgreSQL cannot be run here (no server, nothing fetchable): the claim is memory == SQLite only"])


def replay(ctx, path):
    q.replay(ctx, path)
