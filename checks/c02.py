"""C02 - message conservation and legal state transitions."""
from checks import queuefam as q

RULE = ("MC: QueueMC exhaustively (bounded) with the C02 action properties Conservation / FailureIsNoop; GEN: one schedule per edge "
        "of the bounded abstract graph (self-loops of a state chained, prefixes dropped) and seeded random driver schedules over all "
        "Store operations, each executed on the real memory and SQLite stores; every event (arguments, result, full message table, "
        "volatile state) validated by TLC against Queue.tla (QueueTrace: outcome check + StepLegal + StoreOK per step). "
        "distinct_nontrivial = validated events.")
PROPS = ["Conservation", "FailureIsNoop", "LeaseExclusive", "LeaseFence", "DropRule", "OperatorExact"]
FAM_ALL = ("lease", "leasebatch", "deqvar", "operator", "filter", "admission", "read")


def run(ctx):
    drop = q.spec_cfg(maxDepth=2, drop="drop_oldest")
    ret = q.spec_cfg(maxDepth=2, drop="reject", retMaxAge=20, pruneInt=10, delivMaxAge=20, dlqMaxAge=20, dlqMaxDepth=1)
    if ctx.quick:
        plan = {
            "mc": [("drop_lease", drop, PROPS, dict(family=("lease", "leasebatch", "deqvar"), horizon=20, maxep=2, maxins=2)),
                   ("ret_all", ret, PROPS, dict(family=FAM_ALL, horizon=20, maxep=1, maxins=2, ttls=(10,)))],
            "gen": [("drop", drop, dict(family=("lease", "leasebatch", "deqvar", "admission", "read", "restart"), horizon=10, maxep=1, maxins=2,
                                        pick="insertion", ttls=(10,), ticks=(10,), delays=(0,)), 4)],
            "drv": [("drv", "all", 120, 60, dict(churn_every=60)), ("aux", "aux", 30, 80, {})],
        }
        # delivered-retention depth guard + memory-pressure guard + drop_oldest together (memory): a refused batch must evict nothing
        guard = q.spec_cfg(maxDepth=2, drop="drop_oldest", delivMaxAge=100000, pressItems=1)
        plan["gen"].append(("guards", guard, dict(ids=3, family=("lease", "admission"), horizon=0, maxep=1, maxins=3, pick="insertion",
                                                  ttls=(10,), ticks=(10,), delays=(0,)), 4))
    else:
        mc = []
        for nm, c in (("drop", drop), ("ret", ret), ("reject", q.spec_cfg(maxDepth=2)), ("open", q.spec_cfg())):
            mc.append((nm + "_lease", c, PROPS, dict(family=("lease", "leasebatch", "deqvar"), horizon=30, maxep=2, maxins=2, timeout=1500)))
            mc.append((nm + "_oper", c, PROPS, dict(family=("operator", "filter", "admission", "read"), horizon=20, maxep=1, maxins=2, timeout=1500)))
        # three ids (measured on the open configuration: 403k distinct states, 92 s); three insertions with two ids and every family
        # did not finish within 50 min
        mc.append(("drop3", drop, PROPS, dict(ids=3, family=("lease", "operator"), horizon=20, maxep=1, maxins=3, timeout=1500)))
        mc.append(("ret3", ret, PROPS, dict(ids=3, family=("lease", "admission"), horizon=20, maxep=1, maxins=3, ticks=(10,), delays=(0,), ttls=(10,), timeout=1500)))
        plan = {
            "mc": mc,
            "gen": [("drop", drop, dict(family=FAM_ALL, horizon=20, maxep=2, maxins=2, pick="insertion"), 1),
                    ("ret", ret, dict(family=FAM_ALL, horizon=20, maxep=1, maxins=2, pick="insertion", ttls=(10,)), 1),
                    ("sim", ret, dict(family=FAM_ALL, horizon=200, maxep=3, maxins=6, pick="insertion", ids=3, simulate=600, depth=40,
                                      ticks=(1, 5, 10, 30), delays=(0, 7)), 1)],
            "drv": [("drv", "all", 3000, 80, dict(big_every=40, churn_every=100)), ("aux", "aux", 800, 120, {})],
            "gen_cap": 80000,
        }
    q.run_plan(ctx, plan, RULE)


def replay(ctx, path):
    q.replay(ctx, path)
