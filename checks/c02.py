"""C02 - message conservation and legal state transitions."""
import os

import vf
from checks import queuefam as q

RULE = ("MC: QueueMC exhaustively (bounded) with the C02 action properties; GEN: one schedule per edge of the bounded abstract "
        "graph (self-loops of a state chained, prefixes dropped) and seeded random driver schedules, each executed on the real "
        "memory and SQLite stores; every event (arguments, result, full message table, volatile state) validated by TLC "
        "against Queue.tla (QueueTrace). distinct_nontrivial = validated events.")


def run(ctx):
    vf.build_hkv()
    fam_all = ("lease", "operator", "admission", "read")
    drop = q.spec_cfg(maxDepth=2, drop="drop_oldest")
    ret = q.spec_cfg(maxDepth=2, drop="reject", retMaxAge=20, pruneInt=10, delivMaxAge=20, dlqMaxAge=20, dlqMaxDepth=1)
    if ctx.quick:
        q.run_mc(ctx, "drop-lease", drop, family=("lease",), horizon=20, maxep=2, maxins=2)
        q.run_mc(ctx, "ret-all", ret, family=fam_all, horizon=20, maxep=1, maxins=2, ttls=(10,))
        gens = [("drop", drop, dict(family=fam_all, horizon=10, maxep=1, maxins=2, pick="insertion", ttls=(10,)))]
        ndrv, nops, sample = 160, 60, 4
    else:
        for nm, c in (("drop", drop), ("ret", ret), ("reject", q.spec_cfg(maxDepth=2)), ("open", q.spec_cfg())):
            q.run_mc(ctx, nm + "-lease", c, family=("lease",), horizon=30, maxep=2, maxins=3, timeout=3000)
            q.run_mc(ctx, nm + "-oper", c, family=("operator", "admission", "read"), horizon=20, maxep=1, maxins=3, timeout=3000)
        gens = [("drop", drop, dict(family=fam_all, horizon=20, maxep=2, maxins=2, pick="insertion")),
                ("ret", ret, dict(family=fam_all, horizon=20, maxep=1, maxins=2, pick="insertion", ttls=(10,)))]
        ndrv, nops, sample = 3000, 80, 1
    for nm, c, kw in gens:
        scheds, edges, r = q.gen_schedules(ctx, nm, c, **kw)
        sf = os.path.join(ctx.scratch, "gen-%s.ndjson" % nm)
        q.write_schedules(sf, scheds, c, "gen-" + nm)
        ctx.count("gen_edges", edges)
        ctx.count("gen_schedules", len(scheds))
        if scheds:
            ctx.sample({"kind": "TLC-generated schedule", "cfg": q.sched_cfg(c), "ops": scheds[len(scheds) // 2]})
        res, info = q.execute_and_validate(ctx, sf, "gen-" + nm, sqlite_sample=sample)
        q.triage(ctx, res, sf)
    res, info, sched = q.drive_and_validate(ctx, "drv", "all", ndrv, nops, ctx.seed, big_every=0 if ctx.quick else 40)
    q.triage(ctx, res, sched)
    with open(sched) as f:
        import json
        s = json.loads(f.readline())
        s["ops"] = s["ops"][:12]
        ctx.sample({"kind": "driver schedule (first 12 ops)", **s})
    ctx.assumptions += ["memory and SQLite backends only (no PostgreSQL server in the sandbox)",
                        "payloads / header maps are compared as digests",
                        "retention prune that precedes an operation is modelled as a separate sanctioned step (a refused call may still prune)"]
    vf.write_evidence(ctx, "model_checking", RULE, exhaustive=False)


def replay(ctx, path):
    q.replay(ctx, path)
