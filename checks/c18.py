"""C18 - configuration changes apply atomically or not at all."""
import concurrent.futures as cf
import hashlib
import json
import os
import re
import shutil
import subprocess

import vf

RULE = ("MC: Reload.tla (cells, write segments of the reload, read segments of a request; NoMixture holds for one swap + per-request snapshot, "
        "is violated - as documented - when requests read live cells) and ConfigFile.tla (file-system model with page cache, fsync, rename, "
        "power loss: AtomicReplace / DurableWhenDone hold for temp+write+fsync+rename+dirsync and fail for variants); GEN: TLC enumerates ALL "
        "interleavings of a request's read segments with the reload's write segments; the harness pauses the REAL request and the REAL "
        "reload (production wiring, app.VerifBoot) at the corresponding hook points and follows each interleaving, for a catalogue of "
        "(old, new) configuration pairs whose pure-old and pure-new answers are MEASURED on static instances; failed reloads of every class; "
        "rollback scenarios (post-write validation fails, reload refused); a child process performing the management / MCP file rewrite is "
        "killed at every labelled point of the atomic write (incl. the rollback write) and traced with strace; every event is validated by "
        "TLC (ReloadTrace: one flip of the active version must explain every answer; refused reload => behaviour unchanged; killed => file is "
        "the complete old or new content and new compiles; syscall order of the write protocol). distinct_nontrivial = validated events.")

INGRESS_READS = ["routes", "routes", "auth", "routes", "auth", "auth", "routes"]
RE_ORDER = re.compile(r'^<<"ORDER", "(.*)">>$')


def orders(ctx, pseg, rseg):
    r = vf.mc_run(ctx, "reloadgen_%d_%d" % (pseg, rseg), "Reload",
                  {"ProbeReads": ["routes"] * pseg, "ReloadWrites": [{"auth", "routes"}] * rseg}, {"Snapshot": False, "Emit": True},
                  timeout=300, workers=1)
    if r["error"] or not r["ok"]:
        raise vf.Infra("Reload GEN failed: %s" % r["error"])
    out = set()
    for line in r["out"].splitlines():
        m = RE_ORDER.match(line)
        if m:
            out.add(tuple(json.loads(json.loads('"' + m.group(1) + '"'))))
    ctx.cov["states"] += r["distinct"]
    ctx.cov["transitions"] += r["generated"]
    return sorted(out)


def classify(order):
    ps = [i for i, w in enumerate(order) if w == "p"]
    rs = [i for i, w in enumerate(order) if w == "r"]
    if ps and any(ps[0] < i < ps[-1] for i in rs):
        return "spans_swap"
    return "whole_request_between_reload_steps"


def crash_runs(ctx, hkv, events):
    """Kill the child at every labelled point of the atomic file write; inspect the directory afterwards."""
    from_header = open(os.path.join(vf.VERIF, "harness", "l1", "reload.go")).read()
    cfg_text = None
    # the managed configuration is the Go constant ManagedConfig; let the harness materialise it
    base = ctx.sub("crash-base")
    labels = {"app-upsert": ["cfgwrite.tmp_created", "cfgwrite.written", "cfgwrite.synced", "cfgwrite.before_rename", "cfgwrite.renamed"],
              "app-move-rollback": ["cfgwrite.tmp_created", "cfgwrite.written", "cfgwrite.synced", "cfgwrite.before_rename", "cfgwrite.renamed"],
              "mcp-apply": ["mcpwrite.tmp_created", "mcpwrite.written", "mcpwrite.synced", "mcpwrite.before_rename", "mcpwrite.renamed"]}
    managed = subprocess.run([hkv, "print-managed-config"], stdout=subprocess.PIPE, text=True, env=vf.goenv()).stdout
    if "application" not in managed:
        raise vf.Infra("cannot obtain the managed configuration from the harness")

    def prep(name, mode):
        d = os.path.join(base, name)
        os.makedirs(d)
        open(os.path.join(d, "Hookaidofile"), "w").write(managed)
        open(os.path.join(d, "bystander.txt"), "w").write("do not touch\n")
        os.chmod(os.path.join(d, "Hookaidofile"), 0o600)
        return d

    def state(d):
        out = {}
        for n in sorted(os.listdir(d)):
            p = os.path.join(d, n)
            if os.path.isfile(p):
                out[n] = hashlib.sha256(open(p, "rb").read()).hexdigest()
        return out

    for mode, labs in labels.items():
        # clean run: what is the new content, and how often is each label hit
        d = prep("clean-" + mode, mode)
        hitlog = os.path.join(d, "hits.log")
        env = vf.goenv()
        env["VERIF_HITLOG"] = hitlog
        p = subprocess.run([hkv, "cfg-child", d, mode], stdout=subprocess.PIPE, stderr=subprocess.PIPE, text=True, env=env, timeout=120)
        if p.returncode != 0:
            raise vf.Infra("clean child run failed (%s): %s" % (mode, p.stderr[-500:]))
        hits = {}
        for line in open(hitlog):
            lab, n = line.split()[:2]
            if lab != "CRASH":
                hits[lab] = max(hits.get(lab, 0), int(n))
        old_hash = hashlib.sha256(managed.encode()).hexdigest()
        final_hash = state(d)["Hookaidofile"]
        # for the rollback scenario the on-disk "old" is the edited file and the first write produces an intermediate "new"
        contents = {old_hash: "old", final_hash: "old" if mode == "app-move-rollback" else "new"}
        if mode == "app-move-rollback":
            edited = managed.replace("listen 127.0.0.1:0", "listen 127.0.0.5:0", 1)
            contents[hashlib.sha256(edited.encode()).hexdigest()] = "old"
        for lab in labs:
            if hits.get(lab, 0) == 0:
                raise vf.Infra("label %s never hit in mode %s (hits: %s)" % (lab, mode, hits))
            for n in range(1, hits[lab] + 1):
                d = prep("crash-%s-%s-%d" % (mode, lab.replace(".", "_"), n), mode)
                env = vf.goenv()
                env["VERIF_CRASH"] = "%s:%d" % (lab, n)
                p = subprocess.run([hkv, "cfg-child", d, mode], stdout=subprocess.PIPE, stderr=subprocess.PIPE, text=True, env=env, timeout=120)
                killed = p.returncode == -9
                st = state(d)
                h = st.get("Hookaidofile", "missing")
                content = contents.get(h)
                new_compiles = True
                if content is None:
                    # a complete formatted new content (first write of the rollback scenario) is acceptable iff it compiles and is not partial
                    chk = subprocess.run([hkv, "compiles", os.path.join(d, "Hookaidofile")], stdout=subprocess.PIPE, text=True, env=vf.goenv())
                    if chk.stdout.strip() == "true" and mode == "app-move-rollback":
                        content = "new"
                    else:
                        content = "partial_or_other"
                if content == "new":
                    chk = subprocess.run([hkv, "compiles", os.path.join(d, "Hookaidofile")], stdout=subprocess.PIPE, text=True, env=vf.goenv())
                    new_compiles = chk.stdout.strip() == "true"
                foreign = 0
                for name, hh in st.items():
                    if name in ("Hookaidofile", "hits.log") or name.startswith(".Hookaidofile.tmp-") or name.startswith("q.db"):
                        continue
                    if name == "bystander.txt" and hh == hashlib.sha256(b"do not touch\n").hexdigest():
                        continue
                    foreign += 1
                events.append({"ev": "FileCrash", "mode": mode, "label": lab, "n": n, "killed": killed, "content": content,
                               "new_compiles": new_compiles, "foreign_changed": foreign, "rc": p.returncode})
                ctx.count("crash_points")
    return events


def strace_witness(ctx, hkv, events):
    """Syscall-level witness of the write protocol (covers what a process kill cannot: ordering of fsync and rename)."""
    if shutil.which("strace") is None:
        ctx.notes.append("strace not available: write-protocol witness skipped")
        return
    managed = subprocess.run([hkv, "print-managed-config"], stdout=subprocess.PIPE, text=True, env=vf.goenv()).stdout
    for mode in ("app-upsert", "mcp-apply"):
        d = os.path.join(ctx.sub("strace"), mode)
        os.makedirs(d)
        open(os.path.join(d, "Hookaidofile"), "w").write(managed)
        log = os.path.join(d, "strace.log")
        p = subprocess.run(["strace", "-f", "-y", "-o", log, "-e", "trace=openat,write,pwrite64,fsync,fdatasync,rename,renameat,renameat2",
                            hkv, "cfg-child", d, mode], stdout=subprocess.PIPE, stderr=subprocess.PIPE, text=True, env=vf.goenv(), timeout=180)
        if p.returncode != 0 or not os.path.exists(log):
            raise vf.Infra("strace run failed: %s" % p.stderr[-400:])
        steps = []
        target = os.path.join(d, "Hookaidofile")
        for line in open(log):
            if ".Hookaidofile.tmp-" in line and re.search(r"\b(write|pwrite64)\(", line):
                steps.append("write_tmp")
            elif ".Hookaidofile.tmp-" in line and re.search(r"\b(fsync|fdatasync)\(", line):
                steps.append("fsync_tmp")
            elif re.search(r"\brename(at2?|)\(", line) and "Hookaidofile" in line and " = 0" in line:
                steps.append("rename")
            elif re.search(r"\b(fsync|fdatasync)\(\d+<%s>" % re.escape(d), line):
                steps.append("fsync_dir")
            elif re.search(r"\b(write|pwrite64)\(\d+<%s>" % re.escape(target), line):
                steps.append("write_target")
        events.append({"ev": "WriteProtocol", "mode": mode, "steps": steps})
        ctx.count("strace_runs")


def run(ctx):
    hkv = vf.build_hkv()
    # --- design-level model checking
    goal = vf.mc_run(ctx, "reload_goal", "Reload", {"ProbeReads": INGRESS_READS, "ReloadWrites": [{"auth", "routes"}]}, {"Snapshot": True, "Emit": False},
                     invariants=["NoMixture"], timeout=300, workers=2)
    vf.mc_expect_ok(ctx, goal, "Reload (one swap + snapshot)")
    asis = vf.mc_run(ctx, "reload_asis", "Reload", {"ProbeReads": INGRESS_READS, "ReloadWrites": [{"auth", "routes"}]}, {"Snapshot": False, "Emit": False},
                     invariants=["NoMixture"], timeout=300, workers=2)
    ctx.notes.append("Reload.tla with live reads (as the code does): NoMixture %s in TLC - the design-level statement of the known finding D6"
                     % ("is violated" if asis["violated"] or not asis["ok"] else "holds"))
    two = vf.mc_run(ctx, "reload_twostep", "Reload", {"ProbeReads": ["routes"], "ReloadWrites": [{"auth"}, {"routes"}]}, {"Snapshot": True, "Emit": False},
                    invariants=["NoMixture"], timeout=300, workers=2)
    vf.mc_expect_ok(ctx, two, "Reload (single-read probe)")
    protocol = ["create_tmp", "write_tmp", "fsync_tmp", "rename", "fsync_dir"]
    ok = vf.mc_run(ctx, "cfgfile", "ConfigFile", {"Protocol": protocol}, {}, invariants=["AtomicReplace", "DurableWhenDone"], timeout=300, workers=2)
    vf.mc_expect_ok(ctx, ok, "ConfigFile protocol")
    for nm, bad in (("nofsync", ["create_tmp", "write_tmp", "rename", "fsync_dir"]), ("inplace", ["write_target"])):
        r = vf.mc_run(ctx, "cfgfile_" + nm, "ConfigFile", {"Protocol": bad}, {}, invariants=["AtomicReplace", "DurableWhenDone"], timeout=300, workers=2)
        if r["ok"] and not r["violated"]:
            raise vf.Infra("ConfigFile.tla accepts the broken protocol variant %s (vacuous model)" % nm)
    # --- pilot: measured answers and segment counts
    # reversed pairs (new -> old) are part of the thorough tier
    pilot = [json.loads(x) for x in vf.hkv(["reload-pilot"] + ([] if ctx.quick else ["-rev"]), timeout=1500).strip().splitlines()]
    if not pilot:
        raise vf.Infra("pilot produced nothing")
    jobs = []
    cache = {}
    for pr in pilot:
        if not pr["reload_ok"]:
            raise vf.Infra("pilot reload failed for %s" % pr)
        if pr["old"] == pr["new"] and ctx.quick:
            continue
        key = (pr["pseg"], pr["rseg"])
        if key not in cache:
            cache[key] = orders(ctx, *key)
        for i, o in enumerate(cache[key]):
            jobs.append({"kind": "interleave", "pair": pr["pair"], "probe": pr["probe"], "order": list(o), "old": pr["old"], "new": pr["new"],
                         "name": "il-%s-%s-%d" % (pr["pair"], pr["probe"], i)})
    ctx.count("interleavings", len(jobs))
    pairs = sorted({pr["pair"] for pr in pilot})
    classes = ["unreadable", "parse_error", "compile_error", "missing_secret", "missing_secret_basic", "missing_secret_pull_token",
               "missing_secret_admin_token", "missing_secret_ref", "restart_required"]
    # quick: three pairs with single-request probes (the several-request probes wait seconds for a limiter to refill)
    for pair in ([p for p in pairs if "rate_limit" not in p][:3] if ctx.quick else pairs):
        for cl in classes:
            jobs.append({"kind": "failed", "pair": pair, "class": cl, "name": "failed-%s-%s" % (pair, cl)})
    frozen = vf.hkv(["frozen-pairs"]).split()
    if len(frozen) < 10:
        raise vf.Infra("frozen-settings catalogue is empty")
    for pair in frozen:
        jobs.append({"kind": "frozen", "pair": pair, "name": "frozen-" + pair})
    ctx.count("frozen_setting_reloads", len(frozen))
    for sc in ("post_write_validation_fails", "reload_refused"):
        jobs.append({"kind": "rollback", "scenario": sc, "name": "rollback-" + sc})
    # --- execute in parallel processes (gates are process-global)
    nsh = vf.NCPU * 3      # the jobs mostly wait (gates, limiter refills): more processes than cores
    shards = [jobs[i::nsh] for i in range(nsh)]
    files = []

    def run_shard(i):
        if not shards[i]:
            return None
        jf = os.path.join(ctx.scratch, "reload-jobs-%d.ndjson" % i)
        with open(jf, "w") as f:
            for j in shards[i]:
                f.write(json.dumps(j) + "\n")
        out = os.path.join(ctx.shm, "reload-trace-%d" % i)
        vf.hkv(["reload-run", "-jobs", jf, "-out", out, "-scratch", ctx.shm], timeout=1500)
        return out

    with cf.ThreadPoolExecutor(max_workers=nsh) as ex:
        files = [f for f in ex.map(run_shard, range(nsh)) if f]
    # --- file replacement: crash points and syscall witness
    fevents = [{"ev": "Reset", "tr": "file-replacement"}]
    crash_runs(ctx, hkv, fevents)
    strace_witness(ctx, hkv, fevents)
    ff = os.path.join(ctx.shm, "reload-trace-file")
    with open(ff, "w") as f:
        for e in fevents:
            f.write(json.dumps(e) + "\n")
    files.append(ff)
    res = vf.tv_run(ctx, files, module="ReloadTrace", name="tv-reload")
    ctx.cov["traces_validated_against_impl"] += len(jobs) + len(fevents) - 1
    ctx.cov["schedules_executed"] += len(jobs)
    # --- triage
    seen = {}
    for r in res:
        if r["error"]:
            raise vf.Infra("ReloadTrace error: %s\n%s" % (r["error"], r.get("out_tail", "")))
        events = vf.load_trace(r["file"])
        for e in events:
            if e.get("ev") == "FrozenReload" and e["old"] == e["new"]:
                raise vf.Infra("frozen pair %s does not tell old from new: %s" % (e["pair"], e["old"]))
        fails = list(r["fails"])
        if r["matched"] < r["total"]:
            fails.append((r["matched"] + 1, events[r["matched"]].get("ev", "?"), "rejected"))
        for (line, ev, check) in fails:
            e = events[line - 1]
            if ev == "Probe":
                sig = "L1/reload/Probe/%s/%s/%s/%s" % (check, classify(e.get("order", [])), e.get("pair"), e.get("probe"))
            elif ev == "FileCrash":
                sig = "L2/cfgfile/%s/%s/%s" % (check, e.get("mode"), e.get("label"))
            else:
                sig = "L1/reload/%s/%s/%s" % (ev, check, e.get("pair", e.get("scenario", e.get("mode", ""))) + ("/" + e["class"] if "class" in e else ""))
            seen.setdefault(sig, e)
    for sig, e in sorted(seen.items()):
        if e["ev"] in ("Probe", "Settled", "FailedReload", "FrozenReload", "Rollback"):
            # reproduce: run the same job once more
            job = None
            for j in jobs:
                if e["ev"] in ("Probe", "Settled") and j["kind"] == "interleave" and j["pair"] == e["pair"] and j["probe"] == e["probe"] and (e["ev"] == "Settled" or j["order"] == e["order"]):
                    job = j
                    break
                if e["ev"] == "FailedReload" and j["kind"] == "failed" and j["pair"] == e["pair"] and j["class"] == e["class"]:
                    job = j
                    break
                if e["ev"] == "FrozenReload" and j["kind"] == "frozen" and j["pair"] == e["pair"]:
                    job = j
                    break
                if e["ev"] == "Rollback" and j["kind"] == "rollback" and j["scenario"] == e["scenario"]:
                    job = j
                    break
            if job is None:
                raise vf.Infra("cannot find job of %s" % sig)
            jf = os.path.join(ctx.scratch, "reload-repro.ndjson")
            open(jf, "w").write(json.dumps(job) + "\n")
            out = os.path.join(ctx.shm, "reload-repro-trace")
            vf.hkv(["reload-run", "-jobs", jf, "-out", out, "-scratch", ctx.shm])
            rr = vf.tv_run(ctx, [out], module="ReloadTrace", name="tv-repro")[0]
            if not rr["fails"] and rr["matched"] == rr["total"]:
                raise vf.Infra("divergence %s did not reproduce" % sig)
            vf.report(ctx, sig, "%s: observed %s; measured old=%s new=%s; interleaving %s" % (
                sig, e.get("obs", e.get("after")), e.get("old"), e.get("new"), "".join(e.get("order", []))), {"layer": "L1", "job": job, "event": e})
        else:
            vf.report(ctx, sig, "%s: %s" % (sig, json.dumps(e)[:400]), {"layer": "L2", "event": e})
    ctx.sample({"kind": "interleaving job", **jobs[len(jobs) // 2]})
    ctx.sample({"kind": "file crash event", **fevents[1]})
    c = ctx.cov["counters"]
    if c.get("interleavings", 0) < 50 or c.get("crash_points", 0) < 10:
        raise vf.Infra("vacuous run: %s" % c)
    ctx.assumptions += ["the differential oracle cannot call a mixture a violation when it is observably identical to the old or the new answer",
                        "process kill keeps the page cache: power loss is covered by ConfigFile.tla plus the syscall-order witness, not by losing a cache",
                        "SIGHUP and --watch share reloadConfig; the file watcher and signal delivery are not exercised",
                        "probes are single requests; rate-limit windows spanning a reload are excluded (C12 quantifier)"]
    vf.write_evidence(ctx, "model_checking", RULE, exhaustive=False)


def replay(ctx, path):
    obj = json.load(open(path))
    vf.build_hkv()
    if "job" in obj:
        jf = os.path.join(ctx.scratch, "reload-replay.ndjson")
        open(jf, "w").write(json.dumps(obj["job"]) + "\n")
        out = os.path.join(ctx.shm, "reload-replay-trace")
        vf.hkv(["reload-run", "-jobs", jf, "-out", out, "-scratch", ctx.shm])
        rr = vf.tv_run(ctx, [out], module="ReloadTrace", name="tv-replay")[0]
        for (line, ev, c) in rr["fails"]:
            print("line %d %s check '%s' failed" % (line, ev, c))
        if rr["fails"]:
            vf.report(ctx, obj["sig"], "replayed: " + obj.get("text", ""), {"job": obj["job"]})
        else:
            print("replay: accepted")
    else:
        print("replay of file-crash events: re-run the check (crash points are enumerated deterministically)")
