"""Shared machinery of the API decision-table properties C11 (PullAuth) and C15 (AdminPublish):
one TLC run that model-checks the abstract table and prints its rows, execution of the rows by a Go tool on the
production wiring, trace validation in follow mode, triage with re-execution."""
import json
import os
import re

import vf

RE_ROW = re.compile(r'^<<"ROW", "(.*)">>$')


def mc_and_gen(ctx, name, module, invariants, consts=None, plain=None, timeout=900, constraint=None):
    """Model-check the table module (rows as states, invariants = design rules) and collect the rows it prints.
    A failure is a specification problem (exit 2)."""
    r = vf.mc_run(ctx, name, module, consts or {}, plain or {}, invariants=list(invariants) + ["Emit"], timeout=timeout,
                  constraint=constraint)
    vf.mc_expect_ok(ctx, r, module + "/" + name)
    rows = []
    for line in r["out"].splitlines():
        m = RE_ROW.match(line.strip())
        if m:
            rows.append(json.loads(json.loads('"' + m.group(1) + '"')))
    if not rows:
        raise vf.Infra("%s printed no rows" % module)
    return rows, r


def write_rows(path, rows):
    with open(path, "w") as f:
        for r in rows:
            f.write(json.dumps(r, sort_keys=True) + "\n")


def shard_files(prefix, n):
    fs = [prefix if n == 1 else "%s.%d" % (prefix, i) for i in range(n)]
    return [f for f in fs if os.path.exists(f) and os.path.getsize(f) > 0]


def collect_fails(results):
    """[(file, line, check, event)] for every FAIL line / unconsumed event."""
    out = []
    for r in results:
        if r["error"]:
            raise vf.Infra("trace validation error in %s: %s\n%s" % (r["file"], r["error"], r.get("out_tail", "")))
        lines = [(ln, chk) for (ln, _ev, chk) in r["fails"]]
        if r["matched"] < r["total"]:
            lines.append((r["matched"] + 1, "rejected"))
        if not lines:
            continue
        want = set(ln for ln, _ in lines)
        events = {}
        with open(r["file"]) as f:
            for i, raw in enumerate(f, 1):
                if i in want:
                    events[i] = json.loads(raw)
        for ln, chk in lines:
            out.append((r["file"], ln, chk, events.get(ln, {})))
    return out


def validate_events(ctx, events, module, name):
    """Validate a small list of events; returns the set of failed check names per event index."""
    p = os.path.join(ctx.shm, name + ".ndjson")
    with open(p, "w") as f:
        for e in events:
            f.write(json.dumps(e) + "\n")
    rr = vf.tv_run(ctx, [p], module=module, name="tv-" + name)[0]
    if rr["error"]:
        raise vf.Infra("re-validation errored: %s\n%s" % (rr["error"], rr.get("out_tail", "")))
    failed = {}
    for (ln, _ev, chk) in rr["fails"]:
        failed.setdefault(ln - 1, set()).add(chk)
    if rr["matched"] < rr["total"]:
        failed.setdefault(rr["matched"], set()).add("rejected")
    return failed
