"""C16 - egress policy is enforced on every delivery and redirect hop."""
import concurrent.futures as cf
import json
import os

import vf
from checks import egsign as es

RULE = ("MC: EgressMC - TLC checks 14 design-level invariants of Egress.tla (deny monotone, forbidden answer monotone, https_only, "
        "rebind safety, denied => nothing sent, deny wins, allow only narrows, syntax irrelevance, wildcard shape, mapped = v4) on "
        "every row of the abstract table; GEN: TLC prints the complete table (families shape / addr / rules / chain) as JSON, inputs "
        "only; hkv-egress concretises every row several times from its own RFC-derived CIDR table and executes it on the real "
        "dispatcher.HTTPDeliverer (policy from config.Parse + config.Compile of a generated Hookaidofile, stub resolver, recording "
        "transport playing 30x answers) and a sample through the real PushDispatcher on a MemoryStore; TV: EgressTrace requires for "
        "every execution (requests sent, hop order, result class, DLQ outcome) to be an outcome Egress.tla admits for the row. "
        "distinct_nontrivial = validated executions.")

INVARIANTS = ["TypeOK", "DenyMonotone", "AnswerMonotone", "HttpsOnly", "RebindSafe", "DeniedMeansNothingSent", "RedirectsOff",
              "OnlyHTTP", "DenyWins", "AllowNarrows", "SyntaxIrrelevant", "WildcardShape", "MappedIsV4"]

FAMS = {"shape", "addr", "rules", "chain"}

V4 = ["loop4", "priv10", "priv172", "priv192", "ll4", "mc4", "unspec4", "pub4", "pubA4", "bcast4", "resv4", "thisnet4", "cgnat4"]
V6 = ["loop6", "ula6", "ll6", "mc6", "unspec6", "pub6", "pubA6", "site6", "resv6"]


def addr_desc(a):
    return ("mapped:" if a.get("m") else "") + a.get("c", "") + ("@" + a["p"] if a.get("p") else "")


def rule_desc(r):
    k = r["k"]
    if k == "ip":
        return "ip-mapped-form" if r["a"].get("m") else "ip"
    return k


def hop_desc(h):
    u = h["u"]
    hk = u["h"]["k"]
    if hk in ("lit", "odd"):
        host = hk + ":" + addr_desc(u["h"]["a"]).split("@")[0]
    elif hk == "name":
        ans = h["ans"]
        host = "name->" + ("err" if ans["st"] == "err" else ("empty" if not ans["as"] else "+".join(sorted(set(addr_desc(a).split("@")[0] for a in ans["as"])))))
    else:
        host = hk
    return host


CATS = {"loop4": "loopback4", "priv10": "private4", "priv172": "private4", "priv192": "private4", "ll4": "linklocal4", "mc4": "multicast4",
        "unspec4": "unspecified4", "loop6": "loopback6", "ula6": "private6", "ll6": "linklocal6", "mc6": "multicast6", "unspec6": "unspecified6",
        "bcast4": "unlisted4", "resv4": "unlisted4", "thisnet4": "unlisted4", "cgnat4": "unlisted4", "site6": "unlisted6", "resv6": "unlisted6"}


def category(a):
    c = CATS.get(a.get("c", ""), "plain")
    return ("mapped-" + c) if (a.get("m") and c != "plain") else c


def signature(chk, e):
    """egress/<check>/<class>: the class names the part of the abstract row that discriminates the case."""
    r = e["row"]
    pol = r["pol"]
    if chk.startswith("dlq"):
        # what the dispatcher did with the delivery result: the row matters only through the result class
        return ("egress/%s/%s" % (chk, "dispatcher" if e.get("mode") == "dispatch" else "production-wiring"),
                {"result": e["obs"]["cls"], "state": e["disp"]["state"], "reason": e["disp"]["reason"] or "-", "attempts": e["disp"]["attempts"]})
    if r["fam"] == "rules":
        # the side of the policy the check is about: a request that should not have gone out is about the deny list and the
        # rebind flag, a refusal that should not have happened is about the allow list
        al = "+".join(sorted(set(rule_desc(x) for x in pol["allow"]))) or "-"
        dn = "+".join(sorted(set(rule_desc(x) for x in pol["deny"]))) or "-"
        if chk == "sent_to_refused_hop":
            cls = "rules:deny=%s" % dn if dn != "-" else "rules:allow=%s" % al
        elif chk == "refused_allowed_hop":
            cls = "rules:allow=%s" % al if al != "-" else "rules:deny=%s" % dn
        else:
            cls = "rules:allow=%s;deny=%s" % (al, dn)
    elif r["fam"] == "addr":
        h = r["hops"][0]
        hk = h["u"]["h"]["k"]
        addrs = [h["u"]["h"]["a"]] if hk in ("lit", "odd") else h["ans"]["as"]
        cats = sorted(set(category(a) for a in addrs) - {"plain"})
        cls = "addr:%s,answers=%s,%s;rebind=%d" % (hk, "err" if (hk != "lit" and h["ans"]["st"] == "err") else len(h["ans"]["as"]) if hk != "lit" else "-",
                                                   "+".join(cats) or "plain", pol["rebind"])
    elif r["fam"] == "shape":
        # grouped: the signature keeps the URL features all failing rows of the family have in common
        u = r["hops"][0]["u"]
        feats = {"scheme": u["scheme"], "userinfo": int(u["ui"]), "port": u["port"], "host": hop_desc(r["hops"][0]), "dot": int(u["dot"]), "upper": int(u["up"]),
                 "https_only": int(pol["https"]), "rebind": int(pol["rebind"]), "allowlist": int(bool(pol["allow"]))}
        return ("egress/%s/shape" % chk, feats)
    else:
        # the hop the check is about: the last one contacted (sent_to_refused_hop) or the first one not contacted
        n = e["obs"]["n"]
        k = n - 1 if chk == "sent_to_refused_hop" else n
        k = max(0, min(k, len(r["hops"]) - 1))
        h = r["hops"][k]
        cls = "chain:hop=%s:%s,first=%d;https=%d,redir=%d,rebind=%d" % (h["u"]["scheme"], hop_desc(h), k == 0, pol["https"], pol["redir"], pol["rebind"])
    return "egress/%s/%s" % (chk, cls)


def describe(chk, e):
    c = e["conc"]
    o = e["obs"]
    s = "%s: policy {%s} target %s" % (chk, " ".join(c["policy"].split()), c["hops"][0]["url"])
    if len(c["hops"]) > 1:
        s += " redirect chain " + " -> ".join("%s (%d)" % (h["url"], h["code"]) for h in c["hops"])
    res = ["%s=>%s" % (h["lookup"], "error" if h["err"] else ",".join(h["answers"])) for h in c["hops"] if h["lookup"]]
    if res:
        s += " resolver {" + "; ".join(res) + "}"
    s += " observed: %d request(s) %s result %s %s" % (o["n"], [x["url"] for x in o["sent"]], o["cls"], o["err"])
    if e.get("mode") in ("dispatch", "prod"):
        s += " %s: %s" % ("dispatcher" if e["mode"] == "dispatch" else "production wiring (app.VerifBoot)", json.dumps(e["disp"]))
    return s


def rank(e):
    """Which event of a signature is shown: the simplest (literal host, few rules, direct mode, short chain)."""
    r = e["row"]
    return (len(r["hops"]), len(r["pol"]["allow"]) + len(r["pol"]["deny"]), 0 if r["hops"][0]["u"]["h"]["k"] == "lit" else 1,
            {"direct": 0, "dispatch": 1}.get(e["mode"], 2), e["conc"]["variant"], e.get("id", 0))


def reexec(e, out):
    args = ["one", "-row", json.dumps(e["row"], separators=(",", ":")), "-variant", str(e["conc"]["variant"]),
            "-seed", str(e.get("seed", 1)), "-id", str(e.get("id", 0)), "-out", out]
    if e.get("mode") == "dispatch":
        args.append("-dispatch")
    if e.get("mode") == "prod":
        args.append("-prod")
    vf.tool("hkv-egress", args, timeout=120)


def non_vacuity(ctx, c, edges=()):
    both = lambda k: [k + "/sent", k + "/refused"]
    keys = []
    # both edge addresses of every block and every address just outside one were really used (under rebind protection)
    unused = [e for e in edges if c.get("edge/" + e + "/sent", 0) + c.get("edge/" + e + "/refused", 0) <= 0]
    if unused and not ctx.violations:
        raise vf.Infra("vacuous run (C16): edge / just-outside addresses never used: " + ", ".join(unused[:10]))
    ctx.count("edge_addresses_used", len(edges) - len(unused))
    for cls in V4 + V6 + ["mapped:" + x for x in V4] + ["odd:" + x for x in V4]:
        keys += both("class/" + cls)           # every address class both allowed and denied somewhere
    for k in ("name", "lit", "odd"):
        keys += both("hostkind/" + k)
    keys += ["hostkind/empty/refused", "scheme/other/refused", "scheme/empty/refused"]
    keys += both("scheme/http") + both("scheme/https") + both("userinfo") + both("dot") + both("upper")
    keys += both("lookupfail") + both("mixedanswers") + both("allow+deny")
    for p in ("none", "default", "other", "empty"):
        keys += both("port/" + p)
    for k in ("exact", "sub", "ip", "cidr"):   # every rule shape matched and not matched, as allow and as deny rule
        keys += both("allowrule/" + k) + both("denyrule/" + k)
    keys += ["allowrule/star/sent", "denyrule/star/refused"]
    for hs in ("true", "false"):
        for rd in ("true", "false"):
            for rb in ("true", "false"):
                keys += both("flags/https=%s,redir=%s,rebind=%s" % (hs, rd, rb))
    for ln in (2, 3, 4):
        keys += ["chain/len=%d/contacted=%d" % (ln, k) for k in range(0, ln + 1)]
    keys += ["chain/redir=false/cls=redirect", "chain/redir=true/cls=ok", "chain/redir=true/cls=policy_denied", "chain/redir=true/cls=error",
             "dispatch/dead/policy_denied", "dispatch/policy_denied/zero_requests", "dispatch/delivered/", "dispatch/dead/no_retry",
             "dispatch/dead/max_retries", "mode/direct", "mode/dispatch", "mode/prod", "prod/dead/policy_denied", "prod/delivered/", "fam/shape", "fam/addr", "fam/rules", "fam/chain"]
    es.need(ctx, c, keys, "C16")


def run(ctx):
    vf.build_tool("hkv-egress")
    if ctx.quick:
        max_redir, per, disp_every, prod_every, timeout = 3, 3, 11, 131, 300
    else:
        max_redir, per, disp_every, prod_every, timeout = 5, 24, 3, 17, 1500
    consts = {"Fams": FAMS}
    plain = {"MaxRedir": max_redir}
    rows_file = os.path.join(ctx.scratch, "egress-rows.ndjson")
    # MC runs beside GEN + execution; both are joined before trace validation takes all cores
    with cf.ThreadPoolExecutor(max_workers=2) as ex:
        mc = ex.submit(es.mc_table, ctx, "egress", "EgressMC", consts, plain, INVARIANTS, timeout)
        nrows = es.gen_rows(ctx, "egress", "EgressMC", consts, plain, rows_file, timeout=timeout)
        # a sample through the production wiring (one row at a time) beside the main execution
        pr = ex.submit(execute_prod, ctx, rows_file, prod_every, timeout)
        info = execute(ctx, rows_file, per, disp_every, timeout)
        pinfo = pr.result()
        mc.result()
    for k, v in pinfo["counters"].items():
        info["counters"][k] = info["counters"].get(k, 0) + v
    info["events"] += pinfo["events"]
    run_rest(ctx, nrows, info, timeout)


def execute_prod(ctx, rows_file, every, timeout):
    out = os.path.join(ctx.shm, "egress-trace-prod")
    return json.loads(vf.tool("hkv-egress", ["prod", "-rows", rows_file, "-out", out, "-every", str(every), "-seed", str(ctx.seed),
                                            "-scratch", ctx.shm], timeout=timeout).strip().splitlines()[-1])


def nshards(ctx):
    # thorough: more, smaller trace files than workers (TLC holds a whole trace file in memory)
    return es.WORKERS if ctx.quick else 4 * es.WORKERS


def execute(ctx, rows_file, per, disp_every, timeout):
    out = os.path.join(ctx.shm, "egress-trace")
    return json.loads(vf.tool("hkv-egress", ["run", "-rows", rows_file, "-out", out, "-shards", str(nshards(ctx)), "-per", str(per),
                                            "-seed", str(ctx.seed), "-dispatch-every", str(disp_every)], timeout=timeout).strip().splitlines()[-1])


def run_rest(ctx, nrows, info, timeout):
    ctx.count("abstract_rows", nrows)
    out = os.path.join(ctx.shm, "egress-trace")
    shards = nshards(ctx)
    if info["rows"] != nrows:
        raise vf.Infra("hkv-egress executed %d rows, TLC generated %d" % (info["rows"], nrows))
    for k, v in info["counters"].items():
        if not k.startswith("edge/"):
            ctx.count(k, v)
    ctx.cov["schedules_executed"] += info["events"]
    ctx.cov["traces_validated_against_impl"] += info["events"]
    files = es.shard_files(out, shards) + es.shard_files(os.path.join(ctx.shm, "egress-trace-prod"), 1)
    res = es.tv(ctx, files, "EgressTrace", "tv-egress", timeout=timeout)
    total = sum(r["total"] for r in res)
    if total != info["events"]:
        raise vf.Infra("trace files hold %d events, harness reported %d" % (total, info["events"]))
    es.triage(ctx, res, "EgressTrace", signature, reexec, describe, rank=rank)
    if sum(r["matched"] for r in res) != total:
        raise vf.Infra("trace validation did not consume every event")
    non_vacuity(ctx, info["counters"], info.get("edges", ()))
    # samples: one denied chain and one dispatcher execution
    picked = set()
    with open(files[0]) as f:
        for line in f:
            e = json.loads(line)
            kind = None
            if e["mode"] == "dispatch" and e["disp"]["reason"] == "policy_denied":
                kind = "dispatcher: policy_denied"
            elif len(e["row"]["hops"]) > 2 and e["obs"]["cls"] == "policy_denied" and e["obs"]["n"] >= 1:
                kind = "redirect chain refused at a later hop"
            elif e["row"]["fam"] == "addr" and e["obs"]["cls"] == "policy_denied" and e["row"]["hops"][0]["u"]["h"]["k"] == "odd":
                kind = "odd IPv4 notation refused"
            if kind and kind not in picked:
                picked.add(kind)
                ctx.sample({"kind": kind, "policy": " ".join(e["conc"]["policy"].split()), "hops": [
                    {"url": h["url"], "answers": h["answers"], "resolver_error": h["err"], "status": h["code"]} for h in e["conc"]["hops"]],
                    "requests": [s["url"] for s in e["obs"]["sent"]], "result": e["obs"]["cls"], "dispatcher": e["disp"] if e["mode"] == "dispatch" else None})
            if len(picked) == 3:
                break
    ctx.assumptions += [
        "exhaustive refers to the abstract table of EgressMC.tla (every row executed); concrete URLs, host names and addresses are "
        "representatives: both edges of every RFC block, the addresses just outside it, fixed and seeded random inside addresses",
        "DNS is a stub resolver ('at the time of the check'); the answer for a host is scripted per hop, so a name may re-resolve "
        "differently between redirect hops; the time-of-check / time-of-connect gap of the real dialer is out of scope",
        "address classes the statement does not list (255.255.255.255, 240/4, 0/8, 100.64/10, fec0::/10, space outside 2000::/3) may be "
        "refused or not under rebind protection (explicit MayDeny set in Egress.tla); everything else is two-sided",
        "odd IPv4 notations are host names to the policy: the stub resolver answers them like getaddrinfo (the denoted address) or "
        "with an error (pure-Go resolver)",
        "the policy is built by config.Parse + config.Compile from a generated Hookaidofile and copied field by field as "
        "app.mapEgressRules does (that function is unexported); a sample of rows additionally runs through the production wiring of "
        "app.VerifBoot(HTTPDispatcher) - policy, deliverer and routes built by run.go's own code - with http.DefaultTransport replaced by the "
        "recorder and net.DefaultResolver by a pure-Go resolver talking to an in-process DNS responder",
        "a lookup failure under a policy that needs addresses must send nothing; whether it is reported as policy denial or as a "
        "retryable error is left open"]
    vf.write_evidence(ctx, "model_checking", RULE, exhaustive=True)


def replay(ctx, path):
    vf.build_tool("hkv-egress")
    es.replay(ctx, path, "EgressTrace", reexec, describe)
