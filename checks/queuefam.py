"""Shared machinery of the store-level properties (C02-C05, C12-C14):
MC of QueueMC, TLC-generated schedules (QueueGen) and driver schedules executed
on the real stores, trace validation by QueueTrace."""
import json
import os
import re

import vf

BASE_CFG = {"backend": "memory", "maxDepth": 0, "drop": "reject", "retMaxAge": 0, "pruneInt": 0, "delivMaxAge": 0,
            "dlqMaxAge": 0, "dlqMaxDepth": 0, "sweepGran": 0, "pressItems": 0, "pressure": True, "delivGuard": True,
            "dev": set()}


def spec_cfg(**kw):
    c = dict(BASE_CFG)
    c.update(kw)
    return c


def sched_cfg(c):
    """Configuration as the Go executor wants it (backend-independent part)."""
    return {"maxDepth": c["maxDepth"], "drop": c["drop"], "retMaxAge": c["retMaxAge"], "pruneInt": c["pruneInt"],
            "delivMaxAge": c["delivMaxAge"], "dlqMaxAge": c["dlqMaxAge"], "dlqMaxDepth": c["dlqMaxDepth"],
            "pressItems": c["pressItems"]}


ALL_PROPS = ["Conservation", "FailureIsNoop", "LeaseExclusive", "LeaseFence", "NotBefore", "NoStarvation",
             "DepthBound", "DropRule", "OperatorExact"]


def mc_params(ids=2, horizon=20, maxep=2, maxins=2, family=("lease",), pick="any", ticks=(10, 30), delays=(0, 10), ttls=(10, 30)):
    consts = {"Ids": set("m%d" % i for i in range(1, ids + 1)), "Family": set(family), "Ticks": set(ticks),
              "Delays": set(delays), "TTLs": set(ttls)}
    plain = {"Horizon": horizon, "MaxEp": maxep, "MaxIns": maxins, "PickRule": pick}
    return consts, plain


def run_mc(ctx, name, cfg, props=ALL_PROPS, timeout=900, **kw):
    consts, plain = mc_params(**kw)
    consts["Cfg"] = cfg
    r = vf.mc_run(ctx, name, "QueueMC", consts, plain, invariants=["TypeOK"], properties=props, view="View", timeout=timeout)
    vf.mc_expect_ok(ctx, r, "QueueMC/" + name)
    return r


RE_EDGE = re.compile(r'^<<"EDGE", ([01]), "(.*)">>$')


def gen_schedules(ctx, name, cfg, depth=0, simulate=None, timeout=900, cap=None, **kw):
    """Run QueueGen; return de-duplicated schedules (lists of op dicts).
    Exhaustive mode (depth=0): one schedule per edge of the abstract graph, with the self-loop operations of a
    state chained into one schedule and schedules that are prefixes of others dropped."""
    consts, plain = mc_params(**kw)
    consts["Cfg"] = cfg
    plain["GenDepth"] = depth
    extra = []
    workers = vf.NCPU
    if simulate:
        extra = ["-simulate", "num=%d" % simulate, "-depth", str(depth + 1), "-seed", str(ctx.seed)]
        workers = 1
    edges = 0
    loops = {}      # path (tuple of op-json) -> list of loop ops
    scheds = set()
    intern = {}     # one string object per distinct operation (schedules share long prefixes)

    def sink(line):
        nonlocal edges
        if not line.startswith('<<"EDGE"'):
            return False
        m = RE_EDGE.match(line)
        if not m:
            return False
        edges += 1
        ops = json.loads(json.loads('"' + m.group(2) + '"'))
        key = tuple(intern.setdefault(x, x) for x in (json.dumps(o, sort_keys=True) for o in ops))
        if m.group(1) == "1" and not simulate:
            loops.setdefault(key[:-1], []).append(key[-1])
        else:
            scheds.add(key)
        return True

    r = vf.mc_run(ctx, "gen-" + name, "QueueGen", consts, plain, spec="GenSpec", view=None if simulate else "View",
                  timeout=timeout, extra=extra, workers=workers, line_sink=sink)
    if r["error"] or (not r["ok"] and not simulate):
        raise vf.Infra("QueueGen/%s failed: %s\n%s" % (name, r["error"], "\n".join(r["out"].splitlines()[-30:])))
    for path, lops in loops.items():
        scheds.add(path + tuple(sorted(lops)))
    # drop schedules that are proper prefixes of another schedule
    ordered = sorted(scheds)
    keep = []
    for i, s in enumerate(ordered):
        if i + 1 < len(ordered) and ordered[i + 1][:len(s)] == s:
            continue
        keep.append(s)
    del ordered, scheds, loops
    r["total_schedules"] = len(keep)
    if cap and len(keep) > cap:
        import random
        keep = random.Random(ctx.seed).sample(keep, cap)
    ctx.cov["mc_runs"].append({"name": "gen-" + name, "distinct": r["distinct"], "generated": r["generated"], "edges": edges,
                               "schedules": len(keep), "secs": r["secs"]})
    ctx.cov["states"] += r["distinct"]
    ctx.cov["transitions"] += r["generated"]
    return [[json.loads(o) for o in s] for s in keep], edges, r


def write_schedules(path, scheds, cfg, prefix):
    with open(path, "w") as f:
        for i, ops in enumerate(scheds):
            f.write(json.dumps({"name": "%s-%06d" % (prefix, i), "cfg": sched_cfg(cfg), "ops": ops}) + "\n")


def shard_files(prefix, n):
    return [prefix if n == 1 else "%s.%d" % (prefix, i) for i in range(n)]


AUX_OPS = ("RecordAttempt", "ListAttempts", "CaptureTrend", "ListTrend")


def tv_module_for(ops):
    """Schedules that touch the auxiliary logs are validated by QueueAuxTrace (QueueTrace + QueueAux), all others by QueueTrace."""
    if any(op.get("op") in AUX_OPS for op in ops):
        return {"module": "QueueAuxTrace", "spec": "AuxSpec"}
    return {}


def execute_and_validate(ctx, sched_file, tag, backends="memory,sqlite", reference=False, sqlite_sample=1, shards=None):
    shards = shards or vf.NCPU
    out = os.path.join(ctx.shm, "trace-" + tag)
    args = ["l0-run", "-sched", sched_file, "-out", out, "-backends", backends, "-shards", str(shards),
            "-sqlite-sample", str(sqlite_sample), "-scratch", ctx.shm]
    if reference:
        args.append("-reference")
    info = json.loads(vf.hkv(args).strip().splitlines()[-1])
    files = [f for f in shard_files(out, shards) if os.path.exists(f) and os.path.getsize(f) > 0]
    res = vf.tv_run(ctx, files, name="tv-" + tag)
    ctx.cov["traces_validated_against_impl"] += info["traces"]
    ctx.cov["schedules_executed"] += info["traces"]
    return res, info


def drive_and_validate(ctx, tag, profile, n, ops, seed, ids=6, backends="memory,sqlite", reference=False, big_every=0, churn_every=0, shards=None):
    shards = shards or vf.NCPU
    out = os.path.join(ctx.shm, "trace-" + tag)
    sched = os.path.join(ctx.scratch, "sched-" + tag + ".ndjson")
    args = ["l0-drive", "-seed", str(seed), "-n", str(n), "-ops", str(ops), "-ids", str(ids), "-backends", backends,
            "-profile", profile, "-out", out, "-sched", sched, "-shards", str(shards), "-big-every", str(big_every), "-churn-every", str(churn_every),
            "-scratch", ctx.shm]
    if reference:
        args.append("-reference")
    info = json.loads(vf.hkv(args).strip().splitlines()[-1])
    files = [f for f in shard_files(out, shards) if os.path.exists(f) and os.path.getsize(f) > 0]
    res = vf.tv_run(ctx, files, name="tv-" + tag, **({"module": "QueueAuxTrace", "spec": "AuxSpec"} if profile == "aux" else {}))
    ctx.cov["traces_validated_against_impl"] += info["traces"]
    ctx.cov["schedules_executed"] += info["traces"]
    if profile == "aux":
        aux_coverage(ctx, files)
    # restart and two-handle steps that were actually executed (SQLite)
    for f in files:
        backend = "?"
        for line in open(f):
            if '"ev":"Reset"' in line:
                backend = json.loads(line)["cfg"]["backend"]
            elif '"ev":"Reopen"' in line:
                ctx.count("restart_steps_sqlite", 1)
            elif '"ev":"HandleDeq"' in line:
                if backend == "sqlite":
                    e = json.loads(line)
                    ctx.count("two_handle_dequeues", 1)
                    if e["r"]["first"]["items"] and e["r"]["second"]["items"]:
                        ctx.count("two_handle_dequeues_both_got_messages", 1)
            elif '"ev":"HandleRace"' in line:
                e = json.loads(line)
                if backend != "sqlite":
                    continue
                ctx.count("two_handle_races", 1)
                if (e["r"]["second"]["nf"] or e["r"]["second"]["ex"]) and e["r"]["first"]["n"] > 0:
                    ctx.count("two_handle_races_lease_voided_by_the_other_handle", 1)
    return res, info, sched


def aux_mc(ctx):
    """Design-level model checking of the auxiliary-log contract (QueueAuxMC): the listing predicates used by the trace
    specification are satisfiable and tight, trend counts partition, the logs are append-only and independent of the messages."""
    r2 = {"Routes": {"/r1", "/r2"}}
    if ctx.quick:
        runs = [("aux_att", dict(r2, Ids=set(), Targets={"t1"}), dict(MaxAtt=2, MaxCap=0, MaxNow=3), ["ListingExists", "ListingTight"]),
                ("aux_trend", dict(r2, Ids={"m1"}, Targets={"t1", "t2"}), dict(MaxAtt=0, MaxCap=2, MaxNow=3), ["TrendListingExists", "TrendPartition"])]
    else:
        runs = [("aux_att", dict(r2, Ids=set(), Targets={"t1"}), dict(MaxAtt=3, MaxCap=0, MaxNow=3), ["ListingExists", "ListingTight"]),
                ("aux_trend", dict(r2, Ids={"m1"}, Targets={"t1", "t2"}), dict(MaxAtt=0, MaxCap=3, MaxNow=4), ["TrendListingExists", "TrendPartition"]),
                ("aux_trend2", dict(r2, Ids={"m1", "m2"}, Targets={"t1", "t2"}), dict(MaxAtt=0, MaxCap=1, MaxNow=2), ["TrendListingExists", "TrendPartition"])]
    for name, consts, plain, invs in runs:
        r = vf.mc_run(ctx, name, "QueueAuxMC", consts, plain, invariants=invs, properties=["AppendOnly"], spec="MCSpec", timeout=600, workers=8)
        vf.mc_expect_ok(ctx, r, "QueueAuxMC/" + name)


def aux_coverage(ctx, files):
    """Non-vacuity of the auxiliary-log part: listings that were cut by the limit, filtered, tie-ordered, generated ids,
    trend listings global / filtered / truncated / windowed, captures that pruned."""
    c = {"att_recorded": 0, "att_generated_id": 0, "att_listed_items": 0, "att_list_limited": 0, "att_list_filtered": 0, "att_list_tie": 0,
         "trend_captures": 0, "trend_capture_pruned": 0, "trend_list_global": 0, "trend_list_filtered": 0, "trend_list_truncated": 0,
         "trend_list_window": 0, "trend_listed_items": 0}
    for f in files:
        prev = None
        for line in open(f):
            e = json.loads(line)
            ev = e["ev"]
            if ev == "RecordAttempt":
                c["att_recorded"] += 1
                c["att_generated_id"] += 1 if e["a"]["blank"] else 0
            elif ev == "ListAttempts":
                items = e["r"]["items"]
                a = e["a"]
                c["att_listed_items"] += len(items)
                lim = 100 if a["limit"] <= 0 else min(a["limit"], 1000)
                c["att_list_limited"] += 1 if len(items) == lim else 0
                c["att_list_filtered"] += 1 if items and (a["rt"] or a["tg"] or a["ev"] or a["out"] or a["before"]) else 0
                c["att_list_tie"] += 1 if any(items[i]["at"] == items[i + 1]["at"] for i in range(len(items) - 1)) else 0
            elif ev == "CaptureTrend":
                c["trend_captures"] += 1
                c["trend_capture_pruned"] += 1 if prev is not None and len(prev) != len(e["post"]) else 0
            elif ev == "ListTrend":
                a = e["a"]
                items = e["r"]["items"]
                c["trend_listed_items"] += len(items)
                c["trend_list_global" if not (a["rtn"] or a["tgn"]) else "trend_list_filtered"] += 1 if items else 0
                c["trend_list_truncated"] += 1 if e["r"]["trunc"] else 0
                c["trend_list_window"] += 1 if items and (a["since"] or a["until"]) else 0
            prev = e.get("post") if ev != "Reset" else None
    for k, v in c.items():
        ctx.count("aux_" + k, v)
    # the classes every run of this size reaches are required; the rarer ones (a capture that prunes, a tie, a truncated
    # listing ...) depend on the drawn configurations in a small sample and are reported in the evidence when absent
    core = ("att_recorded", "att_listed_items", "att_list_filtered", "trend_captures", "trend_list_global", "trend_list_filtered", "trend_listed_items")
    empty = [k for k in core if c[k] == 0]
    if empty:
        raise vf.Infra("vacuous auxiliary-log run: nothing counted for %s" % empty)
    rare = [k for k, v in c.items() if v == 0]
    if rare:
        ctx.notes.append("auxiliary-log run: no case of %s in this sample" % ", ".join(rare))


def find_schedule(sched_file, name):
    base = name.rsplit("/", 1)[0]
    for line in open(sched_file):
        s = json.loads(line)
        if s["name"] == base:
            return s
    return None


def signature(backend, ev, check, e):
    """Signature of a divergence: layer / backend / event / failed check / discriminating arguments."""
    a = e.get("a", {}) if isinstance(e, dict) else {}
    disc = ""
    if ev in ("LeaseOp", "LeaseBatch"):
        disc = str(a.get("kind", ""))
    elif ev in ("MutateIds", "MutateFilter"):
        disc = str(a.get("op", ""))
    elif ev in ("Enqueue", "EnqueueBatch"):
        disc = str(e.get("r", {}).get("err", "")) or "stored"
    return "L0/%s/%s/%s/%s" % (backend, ev, check, disc)


def triage(ctx, results, sched_file, reference=False, max_report=12):
    """Turn FAIL lines / rejections into confirmed violations or known findings.
    Every failing behaviour is re-executed once more and re-validated; only a divergence that reproduces is
    reported."""
    todo = {}   # (trace name) -> list of (check, ev, event dict, line)
    for r in results:
        if r["error"]:
            raise vf.Infra("trace validation error in %s: %s\n%s" % (r["file"], r["error"], r.get("out_tail", "")))
        events = None
        lines = [f[0] for f in r["fails"]]
        if r["matched"] < r["total"]:
            lines.append(r["matched"] + 1)
        if not lines:
            continue
        events = vf.load_trace(r["file"])
        for (line, ev, check) in r["fails"]:
            name, _ = vf.trace_of_line(events, line)
            todo.setdefault(name, []).append((check, ev, events[line - 1], line))
        if r["matched"] < r["total"]:
            line = r["matched"] + 1
            name, _ = vf.trace_of_line(events, line)
            todo.setdefault(name, []).append(("rejected", events[line - 1].get("ev", "?"), events[line - 1], line))
    reported = 0
    for name, items in sorted(todo.items()):
        backend = name.rsplit("/", 1)[-1]
        sched = find_schedule(sched_file, name)
        if sched is None:
            raise vf.Infra("cannot find schedule of failing trace " + name)
        # reproduce on a fresh run
        one = os.path.join(ctx.scratch, "repro-sched.ndjson")
        open(one, "w").write(json.dumps(sched) + "\n")
        out = os.path.join(ctx.shm, "repro-trace")
        args = ["l0-run", "-sched", one, "-out", out, "-backends", backend, "-scratch", ctx.shm]
        if reference:
            args.append("-reference")
        # a schedule with a two-handle race depends on the order in which SQLite grants its write lock: several attempts
        attempts = 12 if any(o.get("op") == "HandleRace" for o in sched["ops"]) else 1   # (HandleDeq steps are HandleRace ops too)
        for _ in range(attempts):
            vf.hkv(args)
            rr = vf.tv_run(ctx, [out], name="tv-repro", **tv_module_for(sched["ops"]))[0]
            if rr["error"]:
                raise vf.Infra("reproduction run errored: %s" % rr["error"])
            revents = vf.load_trace(out)
            rfails = [(c, ev, revents[line - 1], line) for (line, ev, c) in rr["fails"]]
            if rr["matched"] < rr["total"]:
                rfails.append(("rejected", revents[rr["matched"]].get("ev", "?"), revents[rr["matched"]], rr["matched"] + 1))
            if rfails:
                break
        if not rfails:
            raise vf.Infra("divergence in %s did not reproduce (%s)" % (name, items[0][:2]))
        seen = set()
        for (check, ev, e, line) in rfails:
            sig = signature(backend, ev, check, e)
            if sig in seen:
                continue
            seen.add(sig)
            pre = revents[line - 2] if line >= 2 else {}
            text = "%s on %s: check '%s' failed at step %d of %s (args %s, result %s)" % (
                ev, backend, check, line - 1, name, json.dumps(e.get("a")), json.dumps(e.get("r")))
            new = vf.report(ctx, sig, text, {"layer": "L0", "backend": backend, "reference": reference, "schedule": sched,
                                             "failed_step": line - 1, "check": check, "event": e, "pre": pre.get("post")})
            if new:
                reported += 1
        if reported >= max_report:
            break


def replay(ctx, path):
    """Re-execute the schedule of a replay file and validate it."""
    obj = json.load(open(path))
    vf.build_hkv()
    one = os.path.join(ctx.scratch, "replay-sched.ndjson")
    open(one, "w").write(json.dumps(obj["schedule"]) + "\n")
    out = os.path.join(ctx.shm, "replay-trace")
    args = ["l0-run", "-sched", one, "-out", out, "-backends", obj["backend"], "-scratch", ctx.shm]
    if obj.get("reference"):
        args.append("-reference")
    for _ in range(12 if any(o.get("op") == "HandleRace" for o in obj["schedule"]["ops"]) else 1):
        vf.hkv(args)
        rr = vf.tv_run(ctx, [out], name="tv-replay", **tv_module_for(obj["schedule"]["ops"]))[0]
        if rr["fails"] or rr["matched"] < rr["total"]:
            break
    events = vf.load_trace(out)
    if rr["fails"] or rr["matched"] < rr["total"]:
        for (line, ev, c) in rr["fails"]:
            e = events[line - 1]
            print("step %d %s check '%s' failed: args %s result %s" % (line - 1, ev, c, json.dumps(e.get("a")), json.dumps(e.get("r"))))
        vf.report(ctx, obj["sig"], "replayed: " + obj.get("text", ""), {k: obj[k] for k in ("layer", "backend", "reference", "schedule")})
    else:
        print("replay: trace accepted (no divergence)")


def drop_traces(results):
    """Validated trace shards live in /dev/shm (memory): remove them once their divergences are triaged."""
    for r in results:
        try:
            os.remove(r["file"])
        except OSError:
            pass


GEN_CAP_QUICK = 20000
GEN_CAP_THOROUGH = 120000


def run_plan(ctx, plan, rule, assumptions=(), reference=False, level="model_checking"):
    """Generic runner of a store-level property: plan = {mc: [...], gen: [...], drv: [...]}.
      mc : (name, cfg, props, kwargs)            design-level model checking of QueueMC
      gen: (name, cfg, kwargs, sqlite_sample)    TLC-generated schedules executed on the real stores + TV
      drv: (tag, profile, n, ops, kwargs)        seeded driver schedules executed on the real stores + TV
    """
    import time
    t = time.time()

    def lap(what):
        nonlocal t
        now = time.time()
        print("  [%6.1fs] %s" % (now - t, what), flush=True)
        ctx.notes.append("%s: %.1fs" % (what, now - t))
        t = now
    vf.build_hkv()
    lap("build harness")
    for (name, cfg, props, kw) in plan.get("mc", []):
        run_mc(ctx, name, cfg, props=props, **kw)
        lap("MC " + name)
    for (name, cfg, kw, sample) in plan.get("gen", []):
        kw = dict(kw)
        simulate = kw.pop("simulate", None)
        depth = kw.pop("depth", 0)
        # the executor handles ~500 traces/s: a tier stays inside its time budget with a seeded sample of the edge schedules
        cap = plan.get("gen_cap", GEN_CAP_QUICK if ctx.quick else GEN_CAP_THOROUGH)
        scheds, edges, r = gen_schedules(ctx, name, cfg, depth=depth, simulate=simulate, cap=cap, **kw)
        total = r["total_schedules"]
        lap("GEN %s (%d edges, %d schedules)" % (name, edges, total))
        if not scheds:
            raise vf.Infra("generator %s produced no schedules" % name)
        if total > cap:
            ctx.notes.append("GEN %s: %d of %d edge schedules executed (seeded sample, cap %d)" % (name, cap, total, cap))
            ctx.count("gen_schedules_not_executed", total - cap)
        sf = os.path.join(ctx.scratch, "gen-%s.ndjson" % name)
        write_schedules(sf, scheds, cfg, "gen-" + name)
        ctx.count("gen_edges", edges)
        ctx.count("gen_schedules", len(scheds))
        ctx.sample({"kind": "TLC-generated schedule (%s)" % name, "cfg": sched_cfg(cfg), "ops": scheds[len(scheds) // 2]})
        del scheds
        res, info = execute_and_validate(ctx, sf, "gen-" + name, sqlite_sample=sample, reference=reference)
        lap("execute+TV gen-%s (%d traces, %d events)" % (name, info["traces"], info["events"]))
        triage(ctx, res, sf, reference=reference)
        drop_traces(res)
    for i, (tag, profile, n, ops, kw) in enumerate(plan.get("drv", [])):
        res, info, sched = drive_and_validate(ctx, tag, profile, n, ops, ctx.seed * 1000 + i, reference=reference, **kw)
        lap("drive+TV %s (%d traces, %d events)" % (tag, info["traces"], info["events"]))
        triage(ctx, res, sched, reference=reference)
        drop_traces(res)
        with open(sched) as f:
            s = json.loads(f.readline())
            s["ops"] = s["ops"][:10]
            ctx.sample({"kind": "driver schedule %s (first 10 ops)" % tag, **s})
    ctx.assumptions += ["memory and SQLite backends only (no PostgreSQL server in the sandbox)",
                        "payloads / header maps are compared as digests",
                        "a retention prune that precedes an operation is a separate sanctioned step (a refused call may still prune)"]
    ctx.assumptions += list(assumptions)
    if ctx.cov["traces_validated_against_impl"] == 0:
        raise vf.Infra("vacuous run: no trace validated")
    vf.write_evidence(ctx, level, rule, exhaustive=False)


def liveness(ctx):
    """C05 liveness on the contract: QueueLive under fairness, no state constraint."""
    for name, cfg in (("live_mem", spec_cfg()), ("live_sql", spec_cfg(backend="sqlite", sweepGran=10, pressure=False, delivGuard=False))):
        consts = {"Ids": {"m1", "m2"}, "Cfg": cfg}
        plain = {"MaxEp": 2, "TTL": 10, "Ext": 10, "Delay": 5, "Step": 5, "Horizon": 90}
        r = vf.mc_run(ctx, name, "QueueLive", consts, plain, invariants=["HorizonNotBinding"],
                      properties=["EventuallyOffered", "EventuallySettled"], timeout=600, workers=4)
        vf.mc_expect_ok(ctx, r, "QueueLive/" + name)


def lin_run(ctx, files, name="lin", timeout=600):
    """Linearizability check of concurrent call/return traces (QueueLinTrace).  A trace is accepted as soon as TLC
    finds one behaviour that consumes it (reported as the violation of the invariant NotFinished); it is rejected
    when the complete search ends without one.  Returns list of {file, accepted, matched, total, states, error}."""
    import concurrent.futures as cf
    import re
    d = vf.spec_dir(ctx, name)

    def one(i_tf):
        i, tf = i_tf
        total = sum(1 for _ in open(tf))
        cfgname = "lin_%d.cfg" % i
        open(os.path.join(d, cfgname), "w").write(
            "SPECIFICATION Spec\nCONSTANT TraceFile = %s\nCONSTRAINT HighWater\nINVARIANT NotFinished\nPOSTCONDITION TraceAccepted\nCHECK_DEADLOCK FALSE\n" % json.dumps(tf))
        rc, out, secs = vf.run_java_tlc(d, "QueueLinTrace.tla", cfgname, workers=1, timeout=timeout, heap="3g",
                                        props=["tlc2.tool.queue.IStateQueue=StateDeque"])
        r = vf.parse_tlc(out)
        accepted = "Invariant NotFinished is violated" in out
        m = re.search(r'"REJECTED", "matched", (\d+), "of", (\d+)', out)
        matched = total if accepted else (int(m.group(1)) if m else 0)
        err = None
        if not accepted and not m:
            err = r["error"] or "no verdict from TLC"
        return {"file": tf, "accepted": accepted, "matched": matched, "total": total, "states": r["generated"], "error": err,
                "out_tail": "\n".join(out.splitlines()[-20:])}

    with cf.ThreadPoolExecutor(max_workers=min(len(files), vf.NCPU) or 1) as ex:
        res = list(ex.map(one, list(enumerate(files))))
    for r in res:
        ctx.cov["states"] += r["states"]
        ctx.cov["transitions"] += r["states"]
        ctx.cov["tv_events"] += r["matched"]
        if r["accepted"]:
            ctx.cov["traces_validated_against_impl"] += 1
    return res


def lin_triage(ctx, res, layer):
    for r in res:
        if r["error"]:
            raise vf.Infra("linearization check errored on %s: %s\n%s" % (r["file"], r["error"], r["out_tail"]))
    for r in res:
        if r["accepted"]:
            continue
        # confirm by a second, independent validation of the same recorded history
        again = lin_run(ctx, [r["file"]], name="lin-confirm")[0]
        if again["error"] or again["accepted"]:
            raise vf.Infra("rejection of %s was not confirmed" % r["file"])
        events = vf.load_trace(r["file"])
        head = events[0]
        nxt = events[r["matched"]] if r["matched"] < len(events) else {}
        backend = head.get("cfg", {}).get("backend", "?")
        sig = "%s/%s/lin/%s" % (layer, backend, nxt.get("ev", "?"))
        keep = os.path.join(vf.VERIF, "replays", "%s-%s.ndjson" % (ctx.prop, os.path.basename(r["file"])))
        os.makedirs(os.path.dirname(keep), exist_ok=True)
        import shutil
        shutil.copyfile(r["file"], keep)
        text = "concurrent history %s has no linearization: longest explained prefix %d of %d lines; next line %s" % (
            head.get("tr"), r["matched"], r["total"], json.dumps(nxt)[:400])
        vf.report(ctx, sig, text, {"layer": layer, "backend": backend, "trace_file": keep, "matched": r["matched"]})



def pull_part(ctx, n, ops, big_every):
    """L1 part of C04 / C05: lease-heavy schedules executed THROUGH the pull API (HTTP and gRPC) of production-wired
    instances on both backends, validated by PullTrace (status mapping, idempotent duplicate rule, max_batch cap)."""
    vf.build_hkv()
    shards = vf.NCPU
    out = os.path.join(ctx.shm, "pull-trace")

    def go(prefix):
        info = json.loads(vf.hkv(["pull-run", "-seed", str(ctx.seed), "-n", str(n), "-ops", str(ops), "-out", prefix, "-shards", str(shards),
                                  "-big-every", str(big_every), "-scratch", ctx.shm]).strip().splitlines()[-1])
        files = [f for f in ["%s.%d" % (prefix, i) for i in range(shards)] if os.path.exists(f) and os.path.getsize(f) > 0]
        return info, files, vf.tv_run(ctx, files, module="PullTrace", name="tv-pull", spec="PullSpec")

    def sigs(res):
        found = {}
        for r in res:
            if r["error"]:
                raise vf.Infra("PullTrace error: %s\n%s" % (r["error"], r.get("out_tail", "")))
            events = vf.load_trace(r["file"])
            fails = list(r["fails"])
            if r["matched"] < r["total"]:
                fails.append((r["matched"] + 1, events[r["matched"]].get("ev", "?"), "rejected"))
            for (line, ev, check) in fails:
                e = events[line - 1]
                a = e.get("a", {})
                sig = "L1/pull/%s/%s/%s/%s" % (ev, check, a.get("transport", ""), a.get("kind", "single" if a.get("single") else ""))
                nm, _ = vf.trace_of_line(events, line)
                found.setdefault(sig, (nm, e))
        return found

    info, files, res = go(out)
    ctx.cov["traces_validated_against_impl"] += info["traces"]
    ctx.cov["schedules_executed"] += info["traces"]
    stats = {"idempotent": 0, "conflict409": 0, "grpc": 0, "big_dequeues": 0, "store_faults": 0}
    for f in files:
        for e in vf.load_trace(f):
            if e["ev"] == "PullLease":
                stats["conflict409"] += 1 if e["r"]["status"] == 409 else 0
                stats["grpc"] += 1 if e["a"]["transport"] == "grpc" else 0
            if e["ev"] == "PullFault":
                stats["store_faults"] += 1
            if e["ev"] == "PullDequeue" and len(e["r"]["items"]) >= 100:
                stats["big_dequeues"] += 1
    for k, v in stats.items():
        ctx.count("pull_" + k, v)
    if stats["conflict409"] == 0 or stats["grpc"] == 0 or stats["store_faults"] == 0:
        raise vf.Infra("vacuous pull-API run: %s" % stats)
    first = sigs(res)
    if first:
        _, _, res2 = go(out + "-repro")
        second = sigs(res2)
        for sig, (nm, e) in sorted(first.items()):
            if sig not in second:
                raise vf.Infra("pull-API divergence %s did not reproduce" % sig)
            vf.report(ctx, sig, "%s in %s: args %s result %s" % (sig, nm, json.dumps(e.get("a"))[:300], json.dumps(e.get("r"))[:300]),
                      {"layer": "L1", "seed": ctx.seed, "trace": nm, "event": e, "cmd": "hkv pull-run -seed %d -n %d -ops %d -big-every %d" % (ctx.seed, n, ops, big_every)})
