#!/usr/bin/env python3
"""Sensitivity tooling of C20 (not imported by the check): the mutations of internal/mcp/server.go that checks/c20.py was
confirmed to detect (all 25; 12 of them pass the repository's own internal/mcp tests).

    git -C /repo worktree add /tmp/wt-c20 HEAD
    python3 checks/c20_mutants.py /tmp/wt-c20 <name>      # apply one mutation (restores the file first); "none" restores
    python3 checks/c20_mutants.py /tmp/wt-c20 --list
    tools/with_repo.sh /tmp/wt-c20 bin/check C20 --tier quick
    git -C /repo worktree remove --force /tmp/wt-c20
"""
import subprocess
import sys

M = {
    # a tool missing from one gating table
    "flag_table": [('"dlq_requeue", "dlq_delete", "messages_cancel", "messages_requeue", "messages_resume",\n\t\t"messages_publish", "messages_cancel_by_filter", "messages_requeue_by_filter", "messages_resume_by_filter":\n\t\treturn true\n\tdefault:\n\t\treturn false\n\t}\n}\n\nfunc toolRequiresRuntimeControlFlag',
                    '"dlq_requeue", "dlq_delete", "messages_cancel", "messages_requeue",\n\t\t"messages_publish", "messages_cancel_by_filter", "messages_requeue_by_filter", "messages_resume_by_filter":\n\t\treturn true\n\tdefault:\n\t\treturn false\n\t}\n}\n\nfunc toolRequiresRuntimeControlFlag')],
    "mutating_table": [('\t\t"instance_start", "instance_stop", "instance_reload":\n\t\treturn true\n\tdefault:\n\t\treturn false\n\t}\n}\n\nfunc (s *Server) auditPrincipal',
                        '\t\t"instance_start", "instance_reload":\n\t\treturn true\n\tdefault:\n\t\treturn false\n\t}\n}\n\nfunc (s *Server) auditPrincipal')],
    "role_table": [('"instance_status", "instance_logs_tail":\n\t\treturn RoleOperate, true\n\tcase "config_apply", "management_endpoint_upsert", "management_endpoint_delete",',
                    '"instance_status", "instance_logs_tail", "management_endpoint_delete":\n\t\treturn RoleOperate, true\n\tcase "config_apply", "management_endpoint_upsert",')],
    "rc_table": [('case "instance_start", "instance_status", "instance_logs_tail", "instance_stop", "instance_reload":\n\t\treturn true',
                  'case "instance_start", "instance_status", "instance_stop", "instance_reload":\n\t\treturn true')],
    # list filtered by role only
    "list_role_only": [('\t\tif s.toolAccessError(tool.Name) == nil {\n\t\t\tfiltered = append(filtered, tool)',
                        '\t\tif req, ok := requiredRoleForTool(tool.Name); ok && s.roleAllows(req) {\n\t\t\tfiltered = append(filtered, tool)')],
    # audit only on success
    "audit_success_only": [('\t\ts.emitMutationAuditEvent(name, args, started, "denied", accessErr, meta)\n', ''),
                           ('\t\ts.emitMutationAuditEvent(name, args, started, "error", err, meta)\n', '')],
    "audit_not_denied": [('\t\ts.emitMutationAuditEvent(name, args, started, "denied", accessErr, meta)\n', '')],
    # principal check skipped when an actor is given
    "principal_skip_actor": [('\tif toolIsMutating(name) && s.auditPrincipal() == "" {\n\t\treturn fmt.Errorf("tool %q requires configured MCP principal (--principal)", name)\n\t}\n\treturn nil\n}\n\nfunc (s *Server) callTool(name string, args map[string]any) toolsCallResult {',
                              '\tif toolIsMutating(name) && s.auditPrincipal() == "" && !argsHaveActor {\n\t\treturn fmt.Errorf("tool %q requires configured MCP principal (--principal)", name)\n\t}\n\treturn nil\n}\n\nvar argsHaveActor bool\n\nfunc (s *Server) callTool(name string, args map[string]any) toolsCallResult {\n\tif a, ok := args["actor"].(string); ok && strings.TrimSpace(a) != "" {\n\t\targsHaveActor = true\n\t\tdefer func() { argsHaveActor = false }()\n\t}')],
    # config_apply writes before compile (and rolls back when compile fails: final state unchanged)
    "write_before_compile_rollback": [('\tcfg, err := config.Parse([]byte(content))\n\tif err != nil {\n\t\treturn map[string]any{\n\t\t\t"ok":         false,\n\t\t\t"path":       p,\n\t\t\t"mode":       mode,\n\t\t\t"applied":    false,',
                                       '\tvar prevData []byte\n\tif mode == "write_only" {\n\t\tprevData, _, _ = readExistingFile(p)\n\t\tif err := writeFileAtomic(p, []byte(content)); err != nil {\n\t\t\treturn nil, err\n\t\t}\n\t}\n\tcfg, err := config.Parse([]byte(content))\n\tif err != nil {\n\t\tif mode == "write_only" {\n\t\t\t_ = writeFileAtomic(p, prevData)\n\t\t}\n\t\treturn map[string]any{\n\t\t\t"ok":         false,\n\t\t\t"path":       p,\n\t\t\t"mode":       mode,\n\t\t\t"applied":    false,')],
    # config_apply writes before compile, no rollback
    "write_before_compile": [('\tcfg, err := config.Parse([]byte(content))\n\tif err != nil {\n\t\treturn map[string]any{\n\t\t\t"ok":         false,\n\t\t\t"path":       p,\n\t\t\t"mode":       mode,\n\t\t\t"applied":    false,',
                              '\tif mode == "write_only" {\n\t\tif err := writeFileAtomic(p, []byte(content)); err != nil {\n\t\t\treturn nil, err\n\t\t}\n\t}\n\tcfg, err := config.Parse([]byte(content))\n\tif err != nil {\n\t\treturn map[string]any{\n\t\t\t"ok":         false,\n\t\t\t"path":       p,\n\t\t\t"mode":       mode,\n\t\t\t"applied":    false,')],
    # compile failure does not stop the write
    "write_despite_compile_error": [('\tcompiled, res := config.Compile(cfg)\n\tif !res.OK {\n\t\treturn map[string]any{\n\t\t\t"ok":       false,\n\t\t\t"path":     p,\n\t\t\t"mode":     mode,\n\t\t\t"applied":  false,',
                                     '\tcompiled, res := config.Compile(cfg)\n\tif !res.OK && mode != "write_only" {\n\t\treturn map[string]any{\n\t\t\t"ok":       false,\n\t\t\t"path":     p,\n\t\t\t"mode":     mode,\n\t\t\t"applied":  false,')],
    # path compare after Clean on one side only
    "path_clean_one_side": [('\t\t\tif argPath != p {\n\t\t\t\treturn "", fmt.Errorf("path %q is not allowed", argPath)',
                             '\t\t\tif filepath.Clean(argPath) != p {\n\t\t\t\treturn "", fmt.Errorf("path %q is not allowed", argPath)')],
    # path compare by base name
    "path_basename": [('\t\t\tif argPath != p {\n\t\t\t\treturn "", fmt.Errorf("path %q is not allowed", argPath)',
                       '\t\t\tif filepath.Base(argPath) != filepath.Base(p) {\n\t\t\t\treturn "", fmt.Errorf("path %q is not allowed", argPath)')],
    "pid_clean_one_side": [('\t\t\tif argPath != p {\n\t\t\t\treturn "", fmt.Errorf("pid_file %q is not allowed", argPath)',
                            '\t\t\tif filepath.Dir(argPath) != filepath.Dir(p) {\n\t\t\t\treturn "", fmt.Errorf("pid_file %q is not allowed", argPath)')],
    # actor compared case-insensitively
    "actor_fold": [('\tif actor != "" && principal != "" && actor != principal {', '\tif actor != "" && principal != "" && !strings.EqualFold(actor, principal) {')],
    # actor binding only for queue tools: management tools forget it
    "actor_unbound_mgmt": [('\tactor, err = bindAuditActorToPrincipal(actor, principal)\n\tif err != nil {\n\t\treturn managementEndpointMutationRequest{}, err\n\t}\n', '')],
    # audit record without role
    "audit_no_role": [('\t\t"role":        s.effectiveRole(),\n', '')],
    "audit_const_hash": [('\t\t"input_hash":  toolInputHash(args),\n', '\t\t"input_hash":  toolInputHash(nil),\n')],
    # strict allowlist forgotten in one tool
    "no_strict_keys": [('func (s *Server) toolDLQDelete(args map[string]any) (any, error) {\n\tif err := validateAllowedKeys(args, idMutationAllowedKeys, "arguments"); err != nil {\n\t\treturn nil, err\n\t}\n',
                        'func (s *Server) toolDLQDelete(args map[string]any) (any, error) {\n')],
    # preview_only of management upsert writes anyway
    "mgmt_preview_writes": [('\tapplyArgs := map[string]any{\n\t\t"path":    configPath,\n\t\t"content": string(formatted),\n\t\t"mode":    mutationReq.Mode,\n\t}\n\tif mutationReq.ReloadTimeout != "" {\n\t\tapplyArgs["reload_timeout"] = mutationReq.ReloadTimeout\n\t}\n\tapplyOut, err := s.toolConfigApply(applyArgs)\n\tif err != nil {\n\t\treturn nil, err\n\t}\n\tif applyMap, ok := applyOut.(map[string]any); ok {\n\t\tif okVal, ok := applyMap["ok"].(bool); ok {\n\t\t\tout["ok"] = okVal\n\t\t}\n\t}\n\tout["config_apply"] = applyOut\n\treturn out, nil\n}\n\nfunc (s *Server) toolManagementEndpointDelete',
                             '\tapplyArgs := map[string]any{\n\t\t"path":    configPath,\n\t\t"content": string(formatted),\n\t\t"mode":    "write_only",\n\t}\n\tif mutationReq.ReloadTimeout != "" {\n\t\tapplyArgs["reload_timeout"] = mutationReq.ReloadTimeout\n\t}\n\tapplyOut, err := s.toolConfigApply(applyArgs)\n\tif err != nil {\n\t\treturn nil, err\n\t}\n\tif applyMap, ok := applyOut.(map[string]any); ok {\n\t\tif okVal, ok := applyMap["ok"].(bool); ok {\n\t\t\tout["ok"] = okVal\n\t\t}\n\t}\n\tout["config_apply"] = applyOut\n\treturn out, nil\n}\n\nfunc (s *Server) toolManagementEndpointDelete')],
    # gate evaluated after the tool ran (for one tool)
    "gate_after_dispatch": [('\tstarted := time.Now()\n\tif accessErr := s.toolAccessError(name); accessErr != nil {',
                             '\tstarted := time.Now()\n\tif name == "messages_cancel" && s.MutationsEnabled {\n\t\t_, _ = s.toolMessagesCancel(args)\n\t}\n\tif accessErr := s.toolAccessError(name); accessErr != nil {')],
    # Admin-proxy mode forwards whatever actor it was given
    "proxy_actor_unbound": [('func (s *Server) toolMessagesCancel(args map[string]any) (any, error) {\n\tif err := validateAllowedKeys(args, idMutationAllowedKeys, "arguments"); err != nil {\n\t\treturn nil, err\n\t}\n\n\taudit, err := parseMutationAuditArgs(args, s.auditPrincipal())',
                             'func (s *Server) toolMessagesCancel(args map[string]any) (any, error) {\n\tif err := validateAllowedKeys(args, idMutationAllowedKeys, "arguments"); err != nil {\n\t\treturn nil, err\n\t}\n\n\tbindTo := s.auditPrincipal()\n\tif _, useAdmin := s.queueToolsUseAdminProxy(); useAdmin {\n\t\tbindTo = ""\n\t}\n\taudit, err := parseMutationAuditArgs(args, bindTo)')],
    # role rank: operate counts as admin
    "rank_operate_admin": [('\tcase RoleOperate:\n\t\treturn 2', '\tcase RoleOperate:\n\t\treturn 3')],
    # unknown tool name normalised (case-insensitive dispatch) - runs config_apply for CONFIG_APPLY without gating
    "audit_twice": [('\ts.emitMutationAuditEvent(name, args, started, "success", nil, meta)\n\treturn toolSuccess(out)', '\ts.emitMutationAuditEvent(name, args, started, "success", nil, meta)\n\ts.emitMutationAuditEvent(name, args, started, "success", nil, meta)\n\treturn toolSuccess(out)')],
    # pid file: instance_stop trusts the pid_file argument when the configured one does not exist ... simplified: foreign accepted for stop
    "stop_any_pidfile": [('func (s *Server) toolInstanceStop(args map[string]any) (any, error) {\n\tif err := validateAllowedKeys(args, instanceStopAllowedKeys, "arguments"); err != nil {\n\t\treturn nil, err\n\t}\n\n\tif err := s.validateRuntimeControlSetup(); err != nil {\n\t\treturn nil, err\n\t}\n\tpidFile, err := s.resolvePIDFilePath(args)\n\tif err != nil {\n\t\treturn nil, err\n\t}',
                          'func (s *Server) toolInstanceStop(args map[string]any) (any, error) {\n\tif err := validateAllowedKeys(args, instanceStopAllowedKeys, "arguments"); err != nil {\n\t\treturn nil, err\n\t}\n\n\tif err := s.validateRuntimeControlSetup(); err != nil {\n\t\treturn nil, err\n\t}\n\tpidFile, err := s.resolvePIDFilePath(args)\n\tif raw, ok := args["pid_file"].(string); ok && strings.TrimSpace(raw) != "" {\n\t\tpidFile, err = strings.TrimSpace(raw), nil\n\t}\n\tif err != nil {\n\t\treturn nil, err\n\t}')],
}


def main():
    wt, name = sys.argv[1], sys.argv[2]
    if name == "--list":
        print(" ".join(M))
        return
    f = wt + "/internal/mcp/server.go"
    subprocess.check_call(["git", "-C", wt, "checkout", "--", "internal/mcp/server.go"])
    if name == "none":
        return
    s = open(f).read()
    for old, new in M[name]:
        if s.count(old) != 1:
            sys.exit("mutation %s: pattern occurs %d times" % (name, s.count(old)))
        s = s.replace(old, new)
    open(f, "w").write(s)


if __name__ == "__main__":
    main()
