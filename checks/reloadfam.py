"""Shared part: reloads that touch a restart-required setting (docs/configuration.md "Restart Required").
Used by C17 (signing settings) next to C18's own run of the whole catalogue."""
import concurrent.futures as cf
import json
import os

import vf


def frozen_part(ctx, prefix):
    vf.build_hkv()
    pairs = [p for p in vf.hkv(["frozen-pairs"]).split() if p.startswith(prefix)]
    if len(pairs) < 3:
        raise vf.Infra("frozen-settings catalogue has no %s* pairs" % prefix)
    jobs = [{"kind": "frozen", "pair": p, "name": "frozen-" + p} for p in pairs]

    def run_job(i, tag="fz"):
        jf = os.path.join(ctx.scratch, "%s-job-%d.ndjson" % (tag, i))
        open(jf, "w").write(json.dumps(jobs[i]) + "\n")
        out = os.path.join(ctx.shm, "%s-trace-%d" % (tag, i))
        vf.hkv(["reload-run", "-jobs", jf, "-out", out, "-scratch", ctx.shm], timeout=600)
        return out

    with cf.ThreadPoolExecutor(max_workers=min(len(jobs), vf.NCPU)) as ex:
        files = list(ex.map(run_job, range(len(jobs))))
    res = vf.tv_run(ctx, files, module="ReloadTrace", name="tv-frozen")
    ctx.cov["traces_validated_against_impl"] += len(jobs)
    ctx.cov["schedules_executed"] += len(jobs)
    ctx.count("frozen_setting_reloads", len(jobs))
    for i, r in enumerate(res):
        if r["error"]:
            raise vf.Infra("ReloadTrace error: %s" % r["error"])
        events = vf.load_trace(r["file"])
        for e in events:
            if e.get("ev") == "FrozenReload" and e["old"] == e["new"]:
                raise vf.Infra("frozen pair %s does not tell old from new: %s" % (e["pair"], e["old"]))
        fails = list(r["fails"])
        if r["matched"] < r["total"]:
            fails.append((r["matched"] + 1, "FrozenReload", "rejected"))
        for (line, ev, check) in fails:
            e = events[line - 1]
            sig = "L1/reload/FrozenReload/%s/%s" % (check, e.get("pair"))
            out = run_job(i, "fz-repro")
            rr = vf.tv_run(ctx, [out], module="ReloadTrace", name="tv-frozen-repro")[0]
            if not rr["fails"] and rr["matched"] == rr["total"]:
                raise vf.Infra("divergence %s did not reproduce" % sig)
            vf.report(ctx, sig, "%s: reload answered ok=%s; probes before: %s; after: %s; measured on a static instance old=%s new=%s" % (
                sig, e.get("ok"), e.get("before"), e.get("after"), e.get("old"), e.get("new")), {"layer": "L1", "frozen_job": jobs[i], "event": e})


def replay_frozen(ctx, obj):
    vf.build_hkv()
    jf = os.path.join(ctx.scratch, "fz-replay.ndjson")
    open(jf, "w").write(json.dumps(obj["frozen_job"]) + "\n")
    out = os.path.join(ctx.shm, "fz-replay-trace")
    vf.hkv(["reload-run", "-jobs", jf, "-out", out, "-scratch", ctx.shm])
    rr = vf.tv_run(ctx, [out], module="ReloadTrace", name="tv-frozen-replay")[0]
    for (line, ev, c) in rr["fails"]:
        print("line %d %s check '%s' failed" % (line, ev, c))
    if rr["fails"]:
        vf.report(ctx, obj["sig"], "replayed: " + obj.get("text", ""), {"frozen_job": obj["frozen_job"]})
    else:
        print("replay: accepted")
