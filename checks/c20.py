"""C20 - MCP tools are role-, flag- and principal-gated, confined and audited.

MC   : McpGateMC - every row of the gating table (tool names incl. unknown ones x 3 roles x 4 flag combinations x
       principal present/absent x actor absent/equal/different) and every argument-shape row is an initial state;
       the invariants are the design-level facts the documentation promises about the table.
GEN  : McpGateGen prints every row as JSON (inputs only).
EXEC : harness/cmd/hkv-mcp builds, per row, a real mcp.Server the way internal/app/mcp.go does, in a private scratch
       environment, and talks JSON-RPC over the stdio framing: tools/list, tools/call, tools/list.
TV   : McpGateTrace validates every recorded call against McpGate.tla (follow mode, one named check per clause).
COV  : McpGateCov decides non-vacuity over the complete trace.
"""
import concurrent.futures as cf
import json
import os
import re

import vf

RULE = ("MC: McpGateMC, every row of the gating table and every argument-shape row as an initial state, invariants over the "
        "table (role monotone, flag off never allows, tools/list consistent with tools/call, mutating needs principal, actor "
        "mismatch refused, default read-only, families as documented: 31 tools = 14 read + 11 operate + 6 admin); GEN: TLC prints "
        "the complete table (35 names x 3 roles x 4 flag combinations x principal present/absent x actor absent/equal/different "
        "= 2520 rows), every tool name under 5 near-miss spellings (white-space padded, upper case) with the tool's own valid "
        "arguments under all 24 server configurations (3720 rows: a name that is not exactly a tool name is not a tool) plus the argument-shape rows (foreign / ../ / symlinked paths and pid files, unknown keys, wrong types, "
        "actor variants, config content that does not parse / compile, write modes, malformed arguments member, Admin-proxy "
        "backend, servers started with an empty --config / --pid-file / --db) under four server configurations; EXEC: each row on a real mcp.Server over stdio JSON-RPC (L1, in-process, "
        "wired as internal/app/mcp.go) and on the real binary `hookaido mcp serve` (L2) in a private scratch environment; TV: "
        "every call validated by TLC against McpGate.tla - class, tools/list before and after, no effect on config file / queue "
        "database / forwarded Admin requests / processes when refused, exactly one audit record with the seven fields per "
        "mutating call, confinement to the configured config path and pid file, every intermediate content of the config file "
        "compiles; COV: TLC decides non-vacuity. exhaustive = the complete gating table; the thorough tier adds seeded random "
        "argument shapes (sampled). traces_validated_against_impl = calls executed and validated.")

UNKNOWN = {"no_such_tool", "CONFIG_APPLY", "instance_restart", ""}
INVARIANTS = ["TypeOK", "MonotoneRole", "MonotoneFlags", "FlagOffDenies", "MutatingNeedsPrincipal", "ActorMismatchRefused",
              "ListedConsistent", "Defaults", "UnknownNeverRuns", "ClassConsistent", "AuditOnlyMutating"]
RE_ROW = re.compile(r'^<<"ROW", "(.*)">>$')
RE_COVER = re.compile(r'^<<"COVER", "(.*)">>$')
TOOL = "hkv-mcp"


def unq(s):
    return json.loads(json.loads('"' + s + '"'))


def mc_and_gen(ctx):
    """MC (invariants over the table) and GEN (rows as JSON) are independent TLC runs over the same initial states."""
    consts = {"UnknownNames": UNKNOWN}
    with cf.ThreadPoolExecutor(max_workers=2) as ex:
        f_mc = ex.submit(vf.mc_run, ctx, "table", "McpGateMC", consts, {}, invariants=INVARIANTS, timeout=300, heap="2g",
                         workers=max(1, vf.NCPU // 2))
        f_gen = ex.submit(vf.mc_run, ctx, "gen", "McpGateGen", consts, {}, invariants=["Emit"], timeout=300, heap="2g", workers=1)
        r, g = f_mc.result(), f_gen.result()
    vf.mc_expect_ok(ctx, r, "McpGateMC")
    if not g["ok"] or g["error"] or g["violated"]:
        raise vf.Infra("McpGateGen failed: %s\n%s" % (g["error"] or g["violated"], "\n".join(g["out"].splitlines()[-30:])))
    rows = []
    for line in g["out"].splitlines():
        m = RE_ROW.match(line.strip())
        if m:
            rows.append(unq(m.group(1)))
    if len(rows) != g["distinct"] or not rows or g["distinct"] != r["distinct"]:
        raise vf.Infra("McpGateGen printed %d rows for %d states (MC: %d)" % (len(rows), g["distinct"], r["distinct"]))
    rows.sort(key=lambda x: json.dumps(x, sort_keys=True))
    for i, row in enumerate(rows):
        row["id"] = "t-%05d" % i
    ctx.cov["mc_runs"].append({"name": "gen", "distinct": g["distinct"], "generated": g["generated"], "rows": len(rows), "secs": g["secs"]})
    ctx.cov["states"] += g["distinct"]
    ctx.cov["transitions"] += g["generated"]
    return rows


def write_rows(path, rows):
    with open(path, "w") as f:
        for row in rows:
            f.write(json.dumps(row) + "\n")


_binary = None


def hookaido_binary():
    """The real hookaido binary (layer L2: `hookaido mcp serve` with its own flag parsing)."""
    global _binary
    if _binary is None:
        os.makedirs(vf.BUILD, exist_ok=True)
        _binary = vf.build_repo_binary(os.path.join(vf.BUILD, "hookaido-c20"))
    return _binary


def execute(ctx, rows_file, tag, nrows, shards=None, layer="L1"):
    shards = max(1, min(shards or vf.NCPU, nrows))
    out = os.path.join(ctx.shm, "trace-" + tag)
    scratch = os.path.join(ctx.shm, "x-" + tag)
    args = ["exec", "-rows", rows_file, "-out", out, "-shards", str(shards), "-scratch", scratch]
    if layer == "L2":
        args += ["-binary", hookaido_binary()]
    info = json.loads(vf.tool(TOOL, args, timeout=1500, cwd=ctx.shm).strip().splitlines()[-1])
    files = ["%s.%d" % (out, i) for i in range(info["shards"])]
    files = [f for f in files if os.path.exists(f) and os.path.getsize(f) > 0]
    got = 0
    for f in files:
        for line in open(f):
            got += 1
            if '"retried":""' not in line:
                ctx.count("rows_retried_after_infrastructure_error")
    if got != nrows:
        raise vf.Infra("hkv-mcp executed %d of %d rows" % (got, nrows))
    ctx.cov["traces_validated_against_impl"] += got
    ctx.cov["schedules_executed"] += got
    return files


def validate(ctx, files, tag, groups=4):
    """Trace validation by TLC.  The shard files are concatenated into a few files first (a JVM per ~1000 events is
    cheaper than one per shard)."""
    total = sum(os.path.getsize(f) for f in files)
    groups = max(1, min(max(groups, total // 6000000), len(files), vf.NCPU))   # ~2500 events per TLC process
    merged = []
    for g in range(groups):
        path = os.path.join(ctx.shm, "tv-%s-%d.ndjson" % (tag, g))
        with open(path, "w") as out:
            for f in files[g::groups]:
                out.write(open(f).read())
        merged.append(path)
    res = vf.tv_run(ctx, merged, module="McpGateTrace", name="tv-" + tag, timeout=900, heap="2g")
    for r in res:
        if r["error"]:
            raise vf.Infra("trace validation error in %s: %s\n%s" % (r["file"], r["error"], r.get("out_tail", "")))
        if r["matched"] < r["total"]:
            raise vf.Infra("trace %s: only %d of %d lines consumed\n%s" % (r["file"], r["matched"], r["total"], r.get("out_tail", "")))
    return res


def signature(check, e):
    """Stable signature of a divergence: mcp/<check>/<tool>/<role>/<flags+principal>/<actor>/<shape>; the list checks
    depend on the server configuration only."""
    r = e["row"]
    conf = "%s/m%dr%dp%d" % (r["role"], int(r["mut"]), int(r["rc"]), int(r["principal"]))
    if check in ("listed", "listed_after"):
        return "mcp/%s/%s" % (check, conf)
    sig = "mcp/%s/%s/%s/%s/%s" % (check, r["tool"] or "(empty)", conf,
                                  e["real"]["actor"] if r["shape"] == "random" else r["actor"], r["shape"])
    if r.get("spell", "exact") != "exact":
        sig += "/name-" + r["spell"]
    if r["shape"] == "random":
        sig += "/%s-%s-%s-%s" % (e["real"]["path"], e["real"]["pid"], "extra" if e["real"]["extra"] else "noextra", e["real"]["mode"])
    return sig


def describe(check, e):
    r = e["row"]
    au = ", ".join(a["result"] for a in e["audits"]) or "none"
    return ("[%s] check '%s' failed: name=%r tool=%r role=%s enable-mutations=%s enable-runtime-control=%s principal=%s actor=%s shape=%s; "
            "observed %s (isError=%s rpc_error=%s) audit=[%s] listed=%d tools effect=%s cfg_changed=%s db_changed=%s spawned=%s "
            "foreign_changed=%s admin_posts=%s args=%s" % (
                e.get("layer", "L1"), check, e.get("wire_name", r["tool"]), r["tool"], r["role"], r["mut"], r["rc"], r["principal"], r["actor"], r["shape"], e["obs"], e["is_error"],
                e["rpc_error"], au, len(e["listed"]), e["effect"], e["cfg_after"] != e["cfg_before"], e["db_after"] != e["db_before"],
                e["spawned"], e["foreign_changed"], e.get("admin_posts", 0), e["args_json"][:300]))


def collect_fails(res):
    """[(file, line, check, event)] plus the events of each file (lazily loaded)."""
    out = []
    for r in res:
        if not r["fails"]:
            continue
        events = vf.load_trace(r["file"])
        for (line, _ev, check) in r["fails"]:
            out.append((r["file"], line, check, events[line - 1], events))
    return out


def triage(ctx, res, rows_by_id, tag, max_sigs=12, layer="L1"):
    fails = collect_fails(res)
    if not fails:
        return
    harness = [(c, e) for (_f, _l, c, e, _evs) in fails if c.startswith("harness_")]
    if harness:
        c, e = harness[0]
        raise vf.Infra("executor / row binding broken (%d lines), e.g. %s" % (len(harness), describe(c, e)))
    # one representative per signature
    reps = {}
    for (f, line, check, e, events) in fails:
        reps.setdefault(signature(check, e), (f, line, check, e, events))
    # at most max_sigs are re-executed and reported: round-robin over the failed checks so that every kind shows up
    by_check = {}
    for sig in sorted(reps, key=lambda x: (reps[x][3]["row"]["shape"] != "minimal", x)):   # table rows first
        by_check.setdefault(reps[sig][2], []).append(sig)
    order = []
    while len(order) < min(max_sigs, len(reps)):
        for c in sorted(by_check):
            if by_check[c] and len(order) < max_sigs:
                order.append(by_check[c].pop(0))
    todo = [(sig, reps[sig]) for sig in order]
    # re-execute: the failing row alone; for the input-hash check (which relates rows) the rows of its shard up to it
    rerun, want = [], []
    for sig, (f, line, check, e, events) in todo:
        ids = [e["id"]]
        if check == "audit_hash":       # relates two calls: the earlier call with the clashing input hash comes first
            ids = [x["id"] for x in events[:line]]
            h = e["audits"][0]["ihash"] if e["audits"] else None
            for x in events[:line - 1]:
                xh = x["audits"][0]["ihash"] if x["audits"] else None
                if xh is not None and ((x["args_sha"] != e["args_sha"]) == (xh == h)):
                    ids = [x["id"], e["id"]]
                    break
        first = len(rerun) + 1
        for i in ids:
            rerun.append(rows_by_id[i])
        want.append((sig, check, e["id"], first, len(rerun)))
    rf = os.path.join(ctx.scratch, "repro-%s.ndjson" % tag)
    write_rows(rf, rerun)
    files = execute(ctx, rf, "repro-" + tag, len(rerun), shards=1, layer=layer)
    rr = validate(ctx, files, "repro-" + tag)[0]
    revents = vf.load_trace(files[0])
    refails = {(line, check) for (line, _ev, check) in rr["fails"]}
    for sig, check, rid, first, line in want:
        if revents[line - 1]["id"] != rid:
            raise vf.Infra("reproduction run out of step at %s" % rid)
        if (line, check) not in refails:
            raise vf.Infra("divergence did not reproduce: %s" % sig)
        e = revents[line - 1]
        vf.report(ctx, sig, describe(check, e), {"row": rows_by_id[rid], "check": check, "event": e, "layer": layer,
                                                 "prefix": [rows_by_id[x["id"]] for x in revents[first - 1:line - 1]]})
    ctx.count("failed_checks", len(fails))
    ctx.count("distinct_signatures", len(reps))
    if len(reps) > len(todo):
        more = sorted(set(reps) - {sig for sig, _ in todo})
        ctx.notes.append("%d further distinct signatures not re-executed, e.g. %s" % (len(more), ", ".join(more[:20])))
        print("  (+%d further distinct signatures: %s ...)" % (len(more), ", ".join(more[:6])), flush=True)


def coverage(ctx, files, expect_random):
    """Non-vacuity, decided by TLC over the complete trace."""
    merged = os.path.join(ctx.shm, "trace-all.ndjson")
    with open(merged, "w") as out:
        for f in files:
            out.write(open(f).read())
    r = vf.mc_run(ctx, "cov", "McpGateCov", {"UnknownNames": UNKNOWN}, {"TraceFile": merged}, invariants=["Covered"],
                  spec="CovSpec", timeout=600, heap="3g", workers=1)
    stats = None
    for line in r["out"].splitlines():
        m = RE_COVER.match(line.strip())
        if m:
            stats = unq(m.group(1))
    if not r["ok"] or r["error"] or r["violated"] or stats is None:
        raise vf.Infra("vacuous run (McpGateCov): %s\nstats=%s\n%s" % (r["violated"] or r["error"], json.dumps(stats),
                                                                   "\n".join(r["out"].splitlines()[-15:])))
    if stats["random"] != expect_random:
        raise vf.Infra("expected %d random rows in the trace, found %d" % (expect_random, stats["random"]))
    if expect_random and (stats["refused_random"] < expect_random // 10 or stats["ok_random"] < expect_random // 20):
        raise vf.Infra("random argument shapes are one-sided: %s" % json.dumps(stats))
    ctx.cov["mc_runs"].append({"name": "cov", "distinct": r["distinct"], "generated": r["generated"], "events": sum(
        stats[k] for k in ("table", "shapes", "random")), "secs": r["secs"]})
    c = ctx.cov["counters"]
    c["rows_table"], c["rows_shapes"], c["rows_random"] = stats["table"], stats["shapes"], stats["random"]
    c["random_refused"], c["random_ok"] = stats["refused_random"], stats["ok_random"]
    c["allowed_with_effect_per_tool_min"] = min(stats["tools"].values())
    c["tools_covered"] = sum(1 for v in stats["tools"].values() if v > 0)
    for k, v in stats["reasons"].items():
        c["refused_" + k] = v
    for k, v in stats["only"].items():
        c["refused_only_" + k] = v
    return stats


def sample_events(ctx, files):
    want = {"allowed": None, "denied": None, "shape": None}
    for f in files:
        for e in vf.load_trace(f):
            r = e["row"]
            slim = {"row": {k: r[k] for k in ("tool", "role", "mut", "rc", "principal", "actor", "shape")}, "obs": e["obs"],
                    "listed": len(e["listed"]), "audit": [a["result"] for a in e["audits"]], "effect": e["effect"],
                    "cfg_changed": e["cfg_after"] != e["cfg_before"], "db_changed": e["db_after"] != e["db_before"]}
            if r["shape"] == "minimal" and r["tool"] == "dlq_requeue" and e["obs"] == "ok" and want["allowed"] is None:
                want["allowed"] = slim
            if r["shape"] == "minimal" and r["tool"] == "config_apply" and e["obs"] == "refused" and r["role"] == "operate" \
                    and r["mut"] and r["principal"] and want["denied"] is None:
                want["denied"] = slim
            if r["shape"] == "path_dirlink_dotdot" and r["tool"] == "config_apply" and r["role"] == "admin" and r["mut"] \
                    and r["principal"] and want["shape"] is None:
                slim["path_argument"] = json.loads(e["args_json"]).get("path") if e["args_json"].endswith("}") else "?"
                want["shape"] = slim
        if all(want.values()):
            break
    for k, v in want.items():
        if v:
            ctx.sample({"kind": k, **v})


def run(ctx):
    import time
    t0 = time.time()
    phases = []

    def mark(name):
        phases.append("%s=%.0fs" % (name, time.time() - t0))

    vf.build_tool(TOOL)
    mark("build")
    rows = mc_and_gen(ctx)
    mark("mc+gen")
    nrandom = 0
    if not ctx.quick:
        nrandom = 40000
        rnd_file = os.path.join(ctx.scratch, "random.ndjson")
        vf.tool(TOOL, ["gen-random", "-seed", str(ctx.seed), "-n", str(nrandom), "-out", rnd_file], timeout=120)
        rows += [json.loads(x) for x in open(rnd_file)]
    rows_by_id = {r["id"]: r for r in rows}
    if len(rows_by_id) != len(rows):
        raise vf.Infra("duplicate row ids")
    rows_file = os.path.join(ctx.scratch, "rows.ndjson")
    write_rows(rows_file, rows)
    files = execute(ctx, rows_file, "main", len(rows))
    mark("exec")
    res = validate(ctx, files, "main")
    mark("tv")
    triage(ctx, res, rows_by_id, "main")
    # layer L2: the same rows against the real binary (`hookaido mcp serve`: flag parsing and wiring of internal/app/mcp.go,
    # audit sink = stderr); quick: the gating table proper, thorough: the argument-shape rows as well
    if ctx.quick:   # the actor dimension is decided inside the tool, it does not depend on the wiring
        l2 = [r for r in rows if r["shape"] == "minimal" and r["actor"] == "absent" and r["spell"] == "exact"]
        l2 += [r for r in rows if r["spell"] == "trail_space" and r["lab"]["mode"] != "none" or r["spell"] == "upper" and r["lab"]["pid"] != "none"]
        l2 += [r for r in rows if r["shape"] in ("actor_case", "pid_foreign", "path_foreign", "content_nocompile_write",
                                                 "nocfg_path_newdir", "nocfg_path_scratch", "nopid_pid_scratch", "nodb_minimal",
                                                 "path_case_base", "pid_case_base")]
    else:
        l2 = [r for r in rows if r["shape"] != "random"] + [r for r in rows if r["shape"] == "random"][:3000]
    l2_file = os.path.join(ctx.scratch, "rows-l2.ndjson")
    write_rows(l2_file, l2)
    files2 = execute(ctx, l2_file, "l2", len(l2), layer="L2")
    mark("exec-l2")
    res2 = validate(ctx, files2, "l2")
    mark("tv-l2")
    triage(ctx, res2, rows_by_id, "l2", layer="L2")
    ctx.count("rows_l2_binary", len(l2))
    try:
        coverage(ctx, files, nrandom)
    except vf.Infra as e:
        if not ctx.violations:
            raise
        ctx.notes.append("coverage accounting failed on a run with violations: %s" % str(e)[:400])
    mark("cov")
    ctx.notes.append("phases (cumulative): " + " ".join(phases))
    sample_events(ctx, files)
    ctx.assumptions += [
        "L1: the server is constructed in-process with the option list of internal/app/mcp.go; L2: the real binary `hookaido mcp serve` "
        "(intermediate contents of the config file are observed at L1 only, through the write hook)",
        "queue backend sqlite (direct mode) for the table; Admin-proxy mode (queue backend memory) for the queue tools against a fake "
        "Admin API that accepts everything (an effect on the queue is then a forwarded request); no PostgreSQL",
        "`hookaido run` is replaced by a stub binary; the admin health endpoint is a fake HTTP server",
        "a tools/call whose `arguments` member is not a JSON object is rejected by the JSON-RPC layer before the tool is looked up; "
        "it must be refused without effect, but an audit record is not demanded for it (at most one)",
        "'parses and compiles' is decided by the repository's own config.Parse / config.Compile",
        "the input hash is checked to be a function of the arguments and injective on the inputs tried, not against a particular algorithm",
    ]
    vf.write_evidence(ctx, "model_checking", RULE, exhaustive=True)


def replay(ctx, path):
    obj = json.load(open(path))
    vf.build_tool(TOOL)
    rows = list(obj.get("prefix") or []) + [obj["row"]]
    rf = os.path.join(ctx.scratch, "replay.ndjson")
    write_rows(rf, rows)
    files = execute(ctx, rf, "replay", len(rows), shards=1, layer=obj.get("layer", "L1"))
    rr = validate(ctx, files, "replay")[0]
    events = vf.load_trace(files[0])
    hit = False
    for (line, _ev, check) in rr["fails"]:
        print(describe(check, events[line - 1]))
        if line == len(rows) and check == obj["check"]:
            hit = True
    if hit:
        vf.report(ctx, obj["sig"], "replayed: " + obj.get("text", ""), {"row": obj["row"], "check": obj["check"], "layer": obj.get("layer", "L1"),
                                                                        "prefix": obj.get("prefix") or []})
    else:
        print("replay: trace accepted for check '%s' (no divergence)" % obj["check"])
