"""C05 - at-least-once redelivery: every unsettled message becomes visible again (store level)."""
from checks import queuefam as q

RULE = ("MC: QueueMC with NotBefore / NoStarvation (exact min(batch, ready) and the 10 ms sweep granularity as a state variable) as action "
        "properties, and the liveness property EventuallyOffered under weak fairness of Dequeue and Tick (finite by construction, no state "
        "constraint); GEN: every edge of the bounded graph with clock steps that cross lease and delay boundaries; seeded 'time' driver with "
        "ticks 1/9/10/11/19/20/21 ms around the sweep granularity, nack delays, scheduled-future messages, batch sizes -1..250, route/target "
        "filters; executed on memory and SQLite; every dequeue validated by TLC: returned set subset of Ready, |returned| = min(batch', |Ready|), "
        "lease_until = now + ttl', sweep only when due. L1: dequeues through the Pull API / Worker API of production-wired instances "
        "(max_batch 1..100, requests for up to 250 of 285 ready messages; Compile must refuse a max_batch the stores cannot serve), "
        "validated by PullTrace.tla: exactly min(min(batch, max_batch), |ready of the endpoint's route|). distinct_nontrivial = validated events.")
PROPS = ["NotBefore", "NoStarvation", "LeaseExclusive", "Conservation"]


def run(ctx):
    mem = q.spec_cfg()
    sql = q.spec_cfg(backend="sqlite", sweepGran=10, pressure=False, delivGuard=False)
    if ctx.quick:
        plan = {"mc": [("time_mem", mem, PROPS, dict(family=("lease", "deqvar"), horizon=20, maxep=2, maxins=1, ticks=(5, 10), delays=(0, 5), ttls=(5, 10))),
                       ("time_sql", sql, PROPS, dict(family=("lease", "deqvar"), horizon=20, maxep=2, maxins=1, ticks=(5, 10), delays=(0, 5), ttls=(5,)))],
                "gen": [("time", mem, dict(family=("lease", "restart"), horizon=20, maxep=2, maxins=1, pick="insertion", ttls=(5,), ticks=(5, 10), delays=(0, 5)), 2)],
                "drv": [("time", "time", 150, 70, dict(churn_every=60))]}
    else:
        # measured (8 workers): coarse grid 276k distinct states / 63 s, fine grid (1-tick steps, one insertion) 156k / 31 s;
        # the first plan (1-tick steps AND two insertions) did not finish in 50 min
        coarse = dict(family=("lease", "deqvar"), horizon=30, maxep=2, maxins=2, ticks=(5, 10), delays=(0, 5), ttls=(5, 10), timeout=1500)
        fine = dict(family=("lease", "deqvar"), horizon=30, maxep=2, maxins=1, ticks=(1, 5, 10), delays=(0, 7), ttls=(5, 10), timeout=1500)
        plan = {"mc": [("time_mem", mem, PROPS, coarse), ("time_mem_fine", mem, PROPS, fine),
                       ("time_sql", sql, PROPS, coarse), ("time_sql_fine", sql, PROPS, fine)],
                # the exhaustive edge graph of the larger configurations has > 6M edges (measured): exhaustive on the one-insertion
                # graph, then long random behaviours (TLC -simulate) of the large memory- and SQLite-shaped models
                "gen": [("time", mem, dict(family=("lease", "deqvar", "restart"), horizon=20, maxep=2, maxins=1, pick="insertion", ttls=(5, 10), ticks=(5, 10), delays=(0, 5)), 1),
                        ("time_sim", mem, dict(family=("lease", "deqvar"), horizon=30, maxep=2, maxins=2, pick="insertion", ttls=(5, 10), ticks=(1, 5, 10),
                                               delays=(0, 5, 7), simulate=600, depth=30), 1),
                        ("time_sql_sim", sql, dict(family=("lease", "deqvar"), horizon=30, maxep=2, maxins=2, pick="nextrun", ttls=(5, 10), ticks=(1, 9, 10),
                                                   delays=(0, 5), simulate=600, depth=30), 1)],
                "drv": [("time", "time", 4000, 90, dict(churn_every=100))]}
    q.liveness(ctx)
    q.pull_part(ctx, 24 if ctx.quick else 400, 50, 4)
    q.run_plan(ctx, plan, RULE, assumptions=["long-poll waiting (MaxWait > 0) uses real time and is kept 0 at this layer",
                                             "crash/restart while leased is covered by the C01 crash machinery; pull max_batch cap by the L1 part"])


def replay(ctx, path):
    q.replay(ctx, path)
