"""Shared machinery of the table-shaped dispatcher properties C16 (egress policy) and C17 (signing):
MC of the table module, GEN of the abstract rows as JSON, execution by a harness tool, trace validation,
triage of FAIL lines into reproduced violations."""
import json
import os
import re

import vf

# TLC workers / trace shards: all cores by default; VERIF_WORKERS lowers both on a shared machine
WORKERS = max(1, min(vf.NCPU, int(os.environ.get("VERIF_WORKERS", vf.NCPU) or vf.NCPU)))

RE_ROW = re.compile(r'^<<"ROW", "(.*)">>$')
RE_INIT = re.compile(r"Finished computing initial states: (\d+) distinct state")


def mc_table(ctx, name, module, consts, plain, invariants, timeout=900):
    """Model-check the table module (design-level invariants over every abstract row)."""
    p = dict(plain)
    p["Emit"] = False
    r = vf.mc_run(ctx, name, module, consts, p, invariants=invariants, timeout=timeout, workers=WORKERS)
    vf.mc_expect_ok(ctx, r, "%s/%s" % (module, name))
    return r


def gen_rows(ctx, name, module, consts, plain, out_path, timeout=900):
    """Let TLC enumerate the abstract rows and print them as JSON; writes one row per line, returns the count."""
    p = dict(plain)
    p["Emit"] = True
    r = vf.mc_run(ctx, "gen-" + name, module, consts, p, invariants=["EmitRow"], timeout=timeout, workers=min(WORKERS, 4))
    if not r["ok"] or r["violated"] or r["error"]:
        raise vf.Infra("%s GEN/%s failed: %s\n%s" % (module, name, r["violated"] or r["error"], "\n".join(r["out"].splitlines()[-30:])))
    n = 0
    with open(out_path, "a") as o:
        for line in r["out"].splitlines():
            m = RE_ROW.match(line)
            if m:
                o.write(json.loads('"' + m.group(1) + '"') + "\n")
                n += 1
    if n == 0:
        raise vf.Infra("%s GEN/%s printed no rows" % (module, name))
    m = RE_INIT.search(r["out"])
    if not m or n != r["distinct"] - int(m.group(1)):
        raise vf.Infra("%s GEN/%s: %d rows printed but %d row states explored (interleaved output?)" % (
            module, name, n, r["distinct"] - (int(m.group(1)) if m else 0)))
    ctx.cov["mc_runs"].append({"name": "gen-" + name, "distinct": r["distinct"], "generated": r["generated"], "rows": n, "secs": r["secs"]})
    ctx.cov["states"] += r["distinct"]
    ctx.cov["transitions"] += r["generated"]
    return n


def shard_files(prefix, n):
    fs = [prefix if n == 1 else "%s.%d" % (prefix, i) for i in range(n)]
    return [f for f in fs if os.path.exists(f) and os.path.getsize(f) > 0]


def tv(ctx, files, module, name, timeout=900):
    """vf.tv_run in batches of WORKERS trace files (vf.tv_run itself starts one TLC per file, up to all cores)."""
    res = []
    for i in range(0, len(files), WORKERS):
        res += vf.tv_run(ctx, files[i:i + WORKERS], module=module, name="%s-%d" % (name, i // WORKERS), timeout=timeout)
    return res


def collect_fails(results):
    """[(file, line, check, event-dict)] for every FAIL line / rejection of a tv_run."""
    out = []
    for r in results:
        if r["error"]:
            raise vf.Infra("trace validation error in %s: %s\n%s" % (r["file"], r["error"], r.get("out_tail", "")))
        lines = [(ln, chk) for (ln, _ev, chk) in r["fails"]]
        if r["matched"] < r["total"]:
            lines.append((r["matched"] + 1, "rejected"))
        if not lines:
            continue
        want = set(ln for ln, _ in lines)
        events = {}
        with open(r["file"]) as f:
            for i, line in enumerate(f, 1):
                if i in want:
                    events[i] = json.loads(line)
        for ln, chk in lines:
            out.append((r["file"], ln, chk, events[ln]))
    return out


def group_by_signature(items, signature):
    """signature(chk, e) returns either a string, or (key, features): then the events of one key form one group and the
    signature is the key plus the features that have the same value in every event of the group."""
    groups, feats = {}, {}
    for (chk, e) in items:
        s = signature(chk, e)
        if isinstance(s, tuple):
            key, f = s
            feats.setdefault(key, []).append(f)
        else:
            key = s
        groups.setdefault(key, []).append((chk, e))
    out = {}
    for key, evs in groups.items():
        sig = key
        if key in feats:
            fl = feats[key]
            common = [(k, fl[0][k]) for k in sorted(fl[0]) if all(f.get(k) == fl[0][k] for f in fl)]
            sig = key + ":" + (",".join("%s=%s" % kv for kv in common) or "any")
        out[sig] = evs
    return out


def triage(ctx, results, module, signature, reexec, describe, max_report=10, rank=None):
    """Every distinct signature among the FAIL lines (at most max_report of them) is re-executed once (reexec(event, path)
    writes a one-line trace) and re-validated; only a divergence that reproduces with the same check is reported."""
    fails = collect_fails(results)
    by_sig = group_by_signature([(chk, e) for (_f, _ln, chk, e) in fails], signature)
    ctx.count("tv_fail_lines", len(fails))
    if not fails:
        return 0
    sigs = sorted(by_sig)
    if len(sigs) > max_report:
        ctx.notes.append("%d distinct signatures among the failed checks; the first %d are reproduced and reported: %s ..." % (
            len(sigs), max_report, ", ".join(sigs[max_report:max_report + 20])))
        sigs = sigs[:max_report]
    picked = []
    all_file = os.path.join(ctx.shm, "repro-all.ndjson")
    with open(all_file, "w") as o:
        for sig in sigs:
            chk, e = min(by_sig[sig], key=lambda ce: rank(ce[1])) if rank else by_sig[sig][0]
            one = os.path.join(ctx.shm, "repro.ndjson")
            reexec(e, one)
            lines = open(one).read().splitlines()
            if len(lines) != 1:
                raise vf.Infra("re-execution of %s produced %d events" % (sig, len(lines)))
            o.write(lines[0] + "\n")
            picked.append((sig, chk))
    rr = vf.tv_run(ctx, [all_file], module=module, name="tv-repro")[0]
    if rr["error"] or rr["matched"] < rr["total"]:
        raise vf.Infra("reproduction run errored: %s" % (rr["error"] or "trace not consumed"))
    events = vf.load_trace(all_file)
    for i, (sig, chk) in enumerate(picked, 1):
        rchecks = [c for (ln, _ev, c) in rr["fails"] if ln == i]
        if chk not in rchecks:
            raise vf.Infra("divergence %s did not reproduce (checks on re-execution: %s)" % (sig, rchecks))
        e2 = events[i - 1]
        text = describe(chk, e2) + " [%d event(s) with this signature]" % len(by_sig[sig])
        vf.report(ctx, sig, text, {"check": chk, "event": e2})
    return len(fails)


def replay(ctx, path, module, reexec, describe):
    obj = json.load(open(path))
    one = os.path.join(ctx.shm, "replay.ndjson")
    reexec(obj["event"], one)
    rr = vf.tv_run(ctx, [one], module=module, name="tv-replay")[0]
    if rr["error"]:
        raise vf.Infra("replay errored: %s" % rr["error"])
    rchecks = [c for (_l, _ev, c) in rr["fails"]]
    if rr["matched"] < rr["total"]:
        rchecks.append("rejected")
    e2 = vf.load_trace(one)[0]
    if rchecks:
        for c in rchecks:
            print("check '%s' failed: %s" % (c, describe(c, e2)))
        vf.report(ctx, obj["sig"], "replayed: " + obj.get("text", ""), {"check": obj.get("check"), "event": e2})
    else:
        print("replay: trace accepted (no divergence)")


def need(ctx, counters, keys, what):
    missing = [k for k in keys if counters.get(k, 0) <= 0]
    if missing and ctx.violations:
        # a run that found violations is not turned into an infrastructure failure because the violating behaviour
        # emptied a counter
        ctx.notes.append("non-vacuity counters at zero in a run with violations: " + ", ".join(missing[:12]))
        return
    if missing:
        raise vf.Infra("vacuous run (%s): no execution counted for %s" % (what, ", ".join(missing[:12])))
