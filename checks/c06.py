"""C06 - push delivery: correct outcome classification, bounded retry with backoff, DLQ.

MC   DispatchTable (complete decision table, window arithmetic) and DispatchMC (worker-loop state machine:
     SendsPerCycle, AttemptLogged, DeniedMeansNothingSent, DelayWindow, liveness under weak fairness).
GEN  DispatchTable prints every table row; DispatchGen prints schedules (target scripts, requeues, release order):
     one per Deliver/Requeue edge of the bounded abstract graph, and -simulate behaviours for long scripts.
RUN  hkv-dispatch executes every input on the real dispatcher.PushDispatcher (Start/Drain) on real memory / SQLite
     stores (fake clock, gated stub Deliverer or the real HTTPDeliverer against a loopback server).
TV   DispatchTrace validates every recorded event against Dispatch.tla; TLC is the only oracle.
"""
import concurrent.futures as cf
import json
import os
import random
import re

import vf

TOOL = "hkv-dispatch"
TRACE_MODULE = "DispatchTrace"

RULE = ("MC: DispatchTable checks Classify/Admissible against the statement's clauses on every row of the complete table "
        "(status 100-599 and neterr/timeout/denied x attempt 1..Max+2 x Max in {1,2,3}) and DispatchMC checks the worker-loop state "
        "machine (SendsPerCycle, AttemptLogged, SettleMatchesLog, DeniedMeansNothingSent, NotEarly, DelayWindow, TerminalIsFinal, and "
        "EventuallyTerminal under weak fairness, no state constraint). GEN: TLC prints every table row and one schedule per "
        "Deliver/Requeue edge of the bounded abstract graph plus -simulate behaviours; seeded driver schedules add batch-path and "
        "fault-injection runs; retry directives are sampled (valid and invalid) and only config.Parse+config.Compile-accepted ones "
        "are used. Every input runs on the real PushDispatcher (memory and SQLite stores, fake clock); every recorded event is "
        "validated by TLC against Dispatch.tla (DispatchTrace). evaluations = behaviours executed; distinct_nontrivial = distinct "
        "table rows + distinct (configuration, scripts, requeues, release order) schedule inputs + distinct accepted retry "
        "configurations that were executed and validated.")

RE_ROW = re.compile(r'^<<"ROW", "(.*)">>$')
RE_EDGE = re.compile(r'^<<"EDGE", ([01]), "(.*)">>$')

ALL_CLASSES = ["2xx", "1xx", "3xx", "408", "429", "4xx", "5xx", "neterr", "timeout", "denied"]
RETRYABLE = ["5xx", "429", "408", "neterr", "timeout"]

MC_INVARIANTS = ["TypeOK", "SendsPerCycle", "SendsOverall", "AttemptLogged", "DeadHasReason"]
MC_PROPS = ["SettleMatchesLog", "DeniedMeansNothingSent", "NotEarly", "DelayWindow", "TerminalIsFinal", "EventuallyTerminal"]


def unq(s):
    return json.loads(json.loads('"' + s + '"'))


def class_of(res):
    """Result class - used for coverage counters and signatures only, never for a verdict."""
    if res["kind"] != "status":
        return res["kind"]
    c = res["code"]
    if c in (408, 429):
        return str(c)
    return "%dxx" % (c // 100)


def rel_of(att, mx):
    return "lt" if att < mx else "eq" if att == mx else "gt" if att == mx + 1 else "gt2"


# ---------------------------------------------------------------- MC / GEN

def mc_table(ctx):
    r = vf.mc_run(ctx, "table", "DispatchTable", {"MaxSet": {1, 2, 3}}, {"CodeLo": 100, "CodeHi": 599},
                  invariants=["TableOK", "EmitRow"], spec="Spec", timeout=300, heap="3g", workers=4)
    vf.mc_expect_ok(ctx, r, "DispatchTable")
    rows = [unq(m.group(1)) for m in (RE_ROW.match(x) for x in r["out"].splitlines()) if m]
    want = (500 + 3) * (3 + 4 + 5)
    if len(rows) != want or r["distinct"] != want:
        raise vf.Infra("DispatchTable printed %d rows / %d states, expected %d" % (len(rows), r["distinct"], want))
    ctx.count("table_rows_generated", len(rows))
    return rows


def model(msgs, maxof, workers, batch, batch_settle, script_len, classes, requeue, retry=(1, 2, 1, 2)):
    """msgs: list of (id, target, att0)."""
    consts = {"Msgs": set(m[0] for m in msgs),
              "TargetOf": {m[0]: m[1] for m in msgs},
              "MaxOf": dict(maxof),
              "Att0": {m[0]: m[2] for m in msgs},
              "Workers": set("w%d" % i for i in range(1, workers + 1)),
              "UseClasses": set(classes),
              "RetryT": {"base": retry[0], "cap": retry[1], "jn": retry[2], "jd": retry[3]}}
    plain = {"Batch": batch, "BatchSettle": batch_settle, "ScriptLen": script_len, "MaxRequeue": requeue}
    return {"consts": consts, "plain": plain, "msgs": msgs, "maxof": dict(maxof), "workers": workers, "single": batch_settle}


def mc_machine_run(ctx, name, mdl, timeout=900, workers=4):
    return vf.mc_run(ctx, name, "DispatchMC", mdl["consts"], mdl["plain"], invariants=MC_INVARIANTS, properties=MC_PROPS,
                     spec="FairSpec", timeout=timeout, heap="6g", workers=workers)


def mc_machine_done(ctx, name, r):
    vf.mc_expect_ok(ctx, r, "DispatchMC/" + name)
    if r["distinct"] < 50:
        raise vf.Infra("DispatchMC/%s explored only %d states" % (name, r["distinct"]))
    return r


def gen_run(ctx, name, mdl, simulate=0, depth=0, workers=4, timeout=900):
    """Run DispatchGen (thread-safe part)."""
    plain = dict(mdl["plain"])
    plain["GenDepth"] = depth if simulate else 0
    extra = []
    if simulate:
        extra = ["-simulate", "num=%d" % simulate, "-depth", str(depth + 1), "-seed", str(ctx.seed)]
    workers = 1   # one worker: the BFS tree (and so the printed paths) is the same on every run
    r = vf.mc_run(ctx, "gen-" + name, "DispatchGen", mdl["consts"], plain, spec="GenSpec", view=None if simulate else "View",
                  timeout=timeout, extra=extra, workers=workers, heap="6g")
    return r, simulate


def gen_done(ctx, name, r, simulate):
    """Bookkeeping of a DispatchGen run; returns the op sequences TLC printed."""
    if r["error"] or (not r["ok"] and not simulate):
        raise vf.Infra("DispatchGen/%s failed: %s\n%s" % (name, r["error"], "\n".join(r["out"].splitlines()[-30:])))
    scheds = [unq(m.group(2)) for m in (RE_EDGE.match(x) for x in r["out"].splitlines()) if m]
    ctx.cov["mc_runs"].append({"name": "gen-" + name, "distinct": r["distinct"], "generated": r["generated"], "edges": len(scheds),
                               "secs": r["secs"]})
    ctx.cov["states"] += r["distinct"]
    ctx.cov["transitions"] += r["generated"]
    ctx.count("gen_edges", len(scheds))
    if not scheds:
        raise vf.Infra("DispatchGen/%s printed no schedule" % name)
    return scheds


def schedule_inputs(ops):
    """What the harness can impose: per-target scripts, requeue budget per message, release order."""
    scripts, requeue, order = {}, {}, []
    eager = False
    last_rq = None
    for o in ops:
        if o["op"] == "Deliver":
            scripts.setdefault(o["tg"], []).append(o["cls"])
            order.append(o["id"])
            if last_rq is not None and o["id"] != last_rq:
                eager = True
        elif o["op"] == "Requeue":
            requeue[o["id"]] = requeue.get(o["id"], 0) + 1
            last_rq = o["id"]
    return scripts, requeue, order, eager


RETRY_POOL = ["exponential max %d base 1ms cap 4ms jitter 0", "exponential max %d base 20ms cap 50ms jitter 0.5",
              "exponential max %d base 2s cap 5s jitter 1", "exponential max %d base 1500us cap 1s jitter 0.2",
              "exponential max %d base 30s cap 2m jitter 0.25", "exponential max %d base 5ms cap 5ms jitter 0.0001"]


def runs_from_schedules(rng, tag, mdl, scheds, backends, conc_choices):
    """De-duplicated Run specs for the schedules of one generator configuration."""
    seen, out = set(), []
    for ops in scheds:
        scripts, requeue, order, eager = schedule_inputs(ops)
        key = json.dumps([scripts, requeue, order], sort_keys=True)
        if key in seen:
            continue
        seen.add(key)
        out.append((scripts, requeue, order, eager))
    runs = []
    for i, (scripts, requeue, order, eager) in enumerate(out):
        targets = [{"name": tg, "retry": rng.choice(RETRY_POOL) % mx} for tg, mx in sorted(mdl["maxof"].items())]
        conc = rng.choice(conc_choices)
        for b in backends:
            runs.append({"name": "%s-%05d/%s" % (tag, i, b), "kind": "script", "backend": b, "conc": conc, "retain": rng.random() < 0.5,
                         "nobatch": rng.random() < 0.15, "gated": True, "eager": eager, "targets": targets,
                         "msgs": [{"id": m[0], "tg": m[1], "att0": m[2]} for m in mdl["msgs"]],
                         "scripts": {tg: [{"cls": c} for c in s] for tg, s in scripts.items()}, "requeue": requeue, "order": order,
                         "seed": rng.randrange(1 << 30)})
    return runs, len(out)


def driver_runs(rng, n, backends):
    """Seeded schedules outside the generator's scope: more messages, bursts that make the dispatcher batch several
    leases into one store call, every concurrency level, and store-fault injection (robustness; excluded from the
    attempt bound by the specification)."""
    runs = []
    for i in range(n):
        ntg = 1 if rng.random() < 0.6 else 2
        tnames = ["t%d" % (k + 1) for k in range(ntg)]
        maxes = {t: rng.choice([1, 2, 3]) for t in tnames}
        conc = rng.choice([1, 2, 3, 4])
        nm = rng.randint(2, 8)
        style = rng.choice(["mixed", "mixed", "burst-ack", "burst-dead", "burst-retry", "recover"])
        scripts = {}
        for t in tnames:
            ln = rng.randint(1, maxes[t] + 2)
            if style == "burst-ack":
                sc = ["2xx"]
            elif style == "burst-dead":
                sc = [rng.choice(["4xx", "denied", "3xx", "1xx"])]
            elif style == "burst-retry":
                sc = [rng.choice(RETRYABLE)] * (nm * rng.randint(1, 2)) + [rng.choice(["2xx", "5xx"])]
            elif style == "recover":
                sc = [rng.choice(RETRYABLE) for _ in range(nm * rng.randint(1, maxes[t]))] + ["2xx"]
            else:
                sc = [rng.choice(ALL_CLASSES) for _ in range(ln * nm)]
            scripts[t] = [{"cls": c} for c in sc]
        retry = "exponential max %d base 10ms cap 40ms jitter 0" if style.startswith("burst") else rng.choice(RETRY_POOL)
        inject = ""
        if i % 7 == 3:
            inject = rng.choice(["batcherr", "batcherr-applied", "singleerr"])
        msgs = [{"id": "m%d" % (k + 1), "tg": rng.choice(tnames), "att0": rng.choice([0, 0, 0, 1, 2])} for k in range(nm)]
        b = backends[i % len(backends)]
        runs.append({"name": "drv-%05d/%s" % (i, b), "kind": "script", "backend": b, "conc": conc, "retain": rng.random() < 0.5,
                     "nobatch": rng.random() < 0.15, "gated": rng.random() < 0.7, "eager": rng.random() < 0.5, "inject": inject,
                     "targets": [{"name": t, "retry": retry % maxes[t]} for t in tnames], "msgs": msgs, "scripts": scripts,
                     "requeue": {m["id"]: rng.choice([0, 0, 1, 2]) for m in msgs}, "order": [], "seed": rng.randrange(1 << 30)})
    return runs


TABLE_RETRY = [(1000, 8000, 0, 1), (250000, 1000000, 2000, 10000), (2000000, 120000000, 10000, 10000), (700, 700, 5000, 10000)]


def table_runs(rows, backend, pick=None):
    runs = []
    for i, row in enumerate(rows):
        if pick is not None and not pick(i):
            continue
        res, att, mx = row["res"], row["att"], row["max"]
        base, cap, jn, jd = TABLE_RETRY[i % len(TABLE_RETRY)]
        runs.append({"name": "tab/%s/%s-%d/a%d/m%d" % (backend, res["kind"], res["code"], att, mx), "kind": "table", "backend": backend,
                     "conc": 1 + (i // 7) % 4, "retain": i % 2 == 0, "nobatch": i % 5 == 4, "gated": True,
                     "targets": [{"name": "t1", "max": mx, "base_us": base, "cap_us": cap, "jn": jn, "jd": jd}],
                     "msgs": [{"id": "m1", "tg": "t1", "att0": att - 1}],
                     "scripts": {"t1": [{"kind": res["kind"], "code": res["code"]}, {"kind": "status", "code": 200}]},
                     "requeue": {}, "order": [], "seed": i})
    return runs


HTTP_CODES = [200, 201, 204, 299, 300, 301, 302, 304, 307, 399, 400, 401, 403, 404, 407, 408, 409, 410, 418, 422, 429, 451, 499,
              500, 501, 502, 503, 504, 599]


def http_runs(rows, quick):
    """Rows sent through the production HTTPDeliverer (loopback server; deny-all / https_only / allowlist / rebind
    policies for the denied class).  1xx cannot be a final answer of Go's HTTP client and is covered by the stub only."""
    runs = []
    for i, row in enumerate(rows):
        res, att, mx = row["res"], row["att"], row["max"]
        if res["kind"] == "status" and res["code"] not in HTTP_CODES:
            continue
        if mx == 3 or att > mx + 1:
            continue
        if res["kind"] == "timeout" and (quick and not (mx == 1 and att in (1, 2))):
            continue
        runs.append({"name": "http/%s-%d/a%d/m%d" % (res["kind"], res["code"], att, mx), "kind": "http", "backend": "memory", "conc": 1,
                     "retain": True, "http": True, "gated": False,
                     "targets": [{"name": "t1", "max": mx, "base_us": 1000, "cap_us": 4000, "jn": 5000, "jd": 10000}],
                     "msgs": [{"id": "m1", "tg": "t1", "att0": att - 1}],
                     "scripts": {"t1": [{"kind": res["kind"], "code": res["code"]}, {"kind": "status", "code": 204}]},
                     "requeue": {}, "order": [], "seed": i})
    return runs


REDIRECT_VIAS = ["deny", "denycidr", "scheme", "allow", "rebind"]


def redirect_runs(quick):
    """Real HTTPDeliverer with redirects on: the first hop passes the egress policy and answers 301/302/307/308 with a Location
    the policy denies (deny rule, CIDR deny rule, scheme, allowlist miss, rebind protection) - a policy denial that reaches the
    dispatcher through http.Client's redirect machinery - plus the control case where the Location is admitted and followed."""
    runs = []
    combos = [(1, 2), (2, 2), (3, 2)] if quick else [(1, 1), (2, 1), (1, 2), (2, 2), (3, 2), (1, 3), (4, 3)]
    i = 0
    for via in REDIRECT_VIAS + ["follow"]:
        for code in (301, 302, 307, 308):
            for (att, mx) in combos:
                i += 1
                kind = "status" if via == "follow" else "denied"
                runs.append({"name": "http/redir-%s-%d/a%d/m%d" % (via, code, att, mx), "kind": "http", "backend": "memory", "conc": 1,
                             "retain": True, "http": True, "gated": False,
                             "targets": [{"name": "t1", "max": mx, "base_us": 1000, "cap_us": 4000, "jn": 5000, "jd": 10000}],
                             "msgs": [{"id": "m1", "tg": "t1", "att0": att - 1}],
                             "scripts": {"t1": [{"kind": kind, "code": code, "via": via}]},
                             "requeue": {"m1": 1 if i % 4 == 0 else 0}, "order": [], "seed": i})
    return runs


DURS = ["1ms", "1500us", "10ms", "250ms", "999ms", "1s", "2s", "7s", "30s", "90s", "2m", "10m", "15m", "333333us", "1m30s"]
DUR_US = {"1ms": 1000, "1500us": 1500, "10ms": 10000, "250ms": 250000, "999ms": 999000, "1s": 1000000, "2s": 2000000, "7s": 7000000,
          "30s": 30000000, "90s": 90000000, "2m": 120000000, "10m": 600000000, "15m": 900000000, "333333us": 333333, "1m30s": 90000000}


def retry_candidates(rng, n):
    """Candidate `retry` directives, valid and invalid; the first few pin the interesting corners."""
    fixed = ["exponential max 8 base 2s cap 2m jitter 0.2", "exponential max 5 base 250ms cap 7s jitter 0",
             "exponential max 6 base 10ms cap 2s jitter 1", "exponential max 40 base 1ms cap 15m jitter 0.5",
             "exponential max 1 base 1s cap 1s jitter 1", "exponential max 3 base 333333us cap 10m jitter 0.3333",
             "exponential max 4", "exponential max 12 base 1500us cap 1s jitter 0.0001",
             "exponential max 3 base 2s cap 1s jitter 0.2", "exponential max 3 base 1s cap 2s jitter 1.5",
             "exponential max 0 base 1s cap 2s jitter 0.1", "linear max 3 base 1s cap 2s", "exponential max 3 base 0 cap 2s",
             "exponential max 2 base 1s cap 2s jitter -0.1", "exponential max x base 1s cap 2s"]
    out = list(fixed[:n])
    while len(out) < n:
        mx = rng.choice([1, 2, 3, 4, 5, 8, 12, 25, 40])
        base, cap = rng.choice(DURS), rng.choice(DURS)
        if DUR_US[base] > DUR_US[cap] and rng.random() < 0.8:
            base, cap = cap, base
        j = rng.choice(["0", "1", "0.5", "0.2", "%.4f" % rng.random(), "%.2f" % rng.random(), "1.0", "0.0", "1.01", "2"])
        parts = ["exponential", "max", str(mx)]
        if rng.random() < 0.9:
            parts += ["base", base]
        if rng.random() < 0.9:
            parts += ["cap", cap]
        if rng.random() < 0.9:
            parts += ["jitter", j]
        out.append(" ".join(parts))
    return out


def delay_runs(rng, directives, per_config, backends):
    runs = []
    for i, d in enumerate(directives):
        m = re.search(r"max (\d+)", d)
        mx = max(1, int(m.group(1))) if m else 8
        nm = (per_config + mx - 1) // mx + 1
        b = backends[i % len(backends)]
        sc = [{"cls": rng.choice(RETRYABLE)} for _ in range(40)] + [{"cls": "5xx"}]
        runs.append({"name": "dly-%04d/%s" % (i, b), "kind": "delay", "backend": b, "conc": 1 + i % 4, "retain": False,
                     "nobatch": i % 6 == 5, "gated": False, "targets": [{"name": "t1", "retry": d}],
                     "msgs": [{"id": "m%03d" % k, "tg": "t1", "att0": 0} for k in range(nm)], "scripts": {"t1": sc},
                     "requeue": {}, "order": [], "seed": rng.randrange(1 << 30), "max_steps": 200000})
    return runs


# ---------------------------------------------------------------- execute / validate / triage

def execute(ctx, tag, runs, shards=None, timeout=1500):
    """Run the behaviours on the real dispatcher; returns (trace files, summary, per-run summaries)."""
    shards = max(1, min(shards or vf.NCPU, len(runs)))
    rf = os.path.join(ctx.scratch, "runs-%s.ndjson" % tag)
    with open(rf, "w") as f:
        for r in runs:
            f.write(json.dumps(r) + "\n")
    out = os.path.join(ctx.shm, "trace-" + tag)
    sf = os.path.join(ctx.scratch, "sum-%s.ndjson" % tag)
    txt = vf.tool(TOOL, ["run", "-in", rf, "-out", out, "-shards", str(shards), "-scratch", ctx.shm, "-summary", sf], timeout=timeout)
    info = json.loads(txt.strip().splitlines()[-1])
    files = [out if shards == 1 else "%s.%d" % (out, i) for i in range(shards)]
    files = [f for f in files if os.path.exists(f) and os.path.getsize(f) > 0]
    sums = [json.loads(x) for x in open(sf)]
    ctx.cov["schedules_executed"] += info["traces"]
    return files, info, sums


def context_of(events, line):
    """(behaviour name, class, attempt-vs-max) of the event at 1-based line: the delivery it settles / records."""
    e = events[line - 1]
    j = line
    while j >= 1 and events[j - 1].get("ev") != "Reset":
        j -= 1
    name = events[j - 1].get("tr", "?") if j >= 1 else "?"
    cfg = events[j - 1].get("cfg", {}) if j >= 1 else {}
    mid = e.get("id")
    if e.get("ev") == "Lease" and e.get("items"):
        mid = e["items"][0]["id"]
    cls, rel = "-", "-"
    if mid:
        k = line if e.get("ev") == "Deliver" else line - 1
        while k > j:
            d = events[k - 1]
            if d.get("ev") == "Deliver" and d.get("id") == mid:
                mx = cfg.get("targets", {}).get(d.get("tg"), {}).get("max", 0)
                cls, rel = class_of(d["res"]), rel_of(d["att"], mx)
                break
            k -= 1
    return name, cls, rel


def fails_of(result):
    """[(line, ev, check)] incl. a pseudo-fail for a trace TLC could not follow to the end."""
    if result["error"]:
        raise vf.Infra("trace validation error in %s: %s\n%s" % (result["file"], result["error"], result.get("out_tail", "")))
    out = list(result["fails"])
    if result["matched"] < result["total"]:
        out.append((result["matched"] + 1, "?", "rejected"))
    return out


TV_JAVA_OPTS = "-XX:ParallelGCThreads=2 -XX:TieredStopAtLevel=1"   # many short single-threaded JVMs side by side


def tv(ctx, files, name):
    old = os.environ.get("JAVA_TOOL_OPTIONS")
    os.environ["JAVA_TOOL_OPTIONS"] = TV_JAVA_OPTS
    try:
        return vf.tv_run(ctx, files, module=TRACE_MODULE, name=name, heap="2g", timeout=1200)
    finally:
        if old is None:
            os.environ.pop("JAVA_TOOL_OPTIONS", None)
        else:
            os.environ["JAVA_TOOL_OPTIONS"] = old


def validate(ctx, tag, files):
    res = tv(ctx, files, "tv-" + tag)
    bad = []
    for r in res:
        fl = fails_of(r)
        if fl:
            bad.append((r["file"], fl))
    return res, bad


def triage(ctx, bad, runs_by_name, max_sigs=12):
    """Re-execute every failing behaviour; report only what reproduces.  Retry delays are random (global math/rand in the
    dispatcher), so a divergence that depends on the drawn jitter gets a few re-executions."""
    cand = {}   # sig -> list of (name, check, event)
    for path, fl in bad:
        events = vf.load_trace(path)
        for (line, ev, check) in fl:
            name, cls, rel = context_of(events, line)
            sig = "dispatch/%s/%s/%s" % (check, cls, rel)
            cand.setdefault(sig, []).append((name, check, events[line - 1]))
    unreproduced = []
    for n, (sig, items) in enumerate(sorted(cand.items())):
        if n >= max_sigs:
            ctx.notes.append("%d further divergence signatures not triaged: %s" % (len(cand) - max_sigs, sorted(cand)[max_sigs:max_sigs + 20]))
            break
        reproduced = None
        tries = 0
        for (name, check, event) in items[:3]:
            run = runs_by_name.get(name)
            if run is None:
                raise vf.Infra("cannot find the input of failing behaviour " + name)
            for _ in range(3):
                tries += 1
                files, _, _ = execute(ctx, "repro", [run], shards=1)
                rr = tv(ctx, files, "tv-repro")[0]
                revents = vf.load_trace(files[0]) if files else []
                for (line, ev, c) in fails_of(rr):
                    _, cls, rel = context_of(revents, line)
                    if "dispatch/%s/%s/%s" % (c, cls, rel) == sig:
                        reproduced = (run, revents, line)
                        break
                if reproduced:
                    break
            if reproduced:
                break
        if not reproduced:
            unreproduced.append("%s (behaviour %s, %d re-executions)" % (sig, items[0][0], tries))
            continue
        run, revents, line = reproduced
        e = revents[line - 1]
        j = line
        while j >= 1 and revents[j - 1].get("ev") != "Reset":
            j -= 1
        text = "check '%s' failed at event %d (%s) of behaviour %s: %s" % (
            sig.split("/")[1], line - j, e.get("ev"), run["name"],
            json.dumps({k: v for k, v in e.items() if k in ("id", "att", "res", "call", "err", "post", "outcome", "dr", "code", "why")}))
        vf.report(ctx, sig, text, {"layer": "L1-dispatcher", "run": run, "failed_event": e, "trace_prefix": revents[j - 1:line]})
    if unreproduced:
        if not ctx.violations and not ctx.known:
            raise vf.Infra("divergence did not reproduce: " + "; ".join(unreproduced))
        ctx.notes.append("divergences that did not reproduce on re-execution (not reported): " + "; ".join(unreproduced))


# ---------------------------------------------------------------- coverage from the traces

class Cover:
    def __init__(self):
        self.cells = {}        # (class, rel) -> deliveries
        self.reasons = {}
        self.conc = set()
        self.backends = set()
        self.multi_target = 0
        self.batch_multi = 0
        self.batch_single = 0
        self.per_action = 0
        self.requeues = 0
        self.http_denied = 0
        self.stub_denied = 0
        self.http_delivers = 0
        self.redir_denied = {}   # way of denial -> deliveries whose redirect hop was denied (real HTTPDeliverer)
        self.redir_followed = 0  # control: redirect admitted and followed to the second host
        self.denied_unseen = 0   # denial observed at the transport that the returned error chain did not show
        self.http_mismatch = 0   # observed result differs from the scripted one (machine load); the observed one is validated
        self.delays = {}       # behaviour -> number of retries scheduled
        self.jit0 = self.jit1 = 0
        self.below = self.above = self.exact = 0
        self.near_lo = self.near_hi = 0
        self.jit = {}          # delay behaviour -> [capped&above, capped&below, capped total, uncapped&above, uncapped&below, uncapped total]
        self.injected = 0
        self.events = 0

    def scan(self, path):
        cfg, name, pend = {}, "", {}
        for line in open(path):
            e = json.loads(line)
            self.events += 1
            ev = e["ev"]
            if ev == "Reset":
                cfg, name, pend = e["cfg"], e["tr"], {}
                self.conc.add(cfg["conc"])
                self.backends.add(cfg["backend"])
                if len(cfg["targets"]) > 1:
                    self.multi_target += 1
                if cfg["inject"]:
                    self.injected += 1
                if cfg["kind"] == "delay":
                    t = cfg["targets"]["t1"]
                    self.jit0 += t["jn"] == 0
                    self.jit1 += t["jn"] == t["jd"]
            elif ev == "Deliver":
                mx = cfg["targets"].get(e["tg"], {}).get("max", 0)
                c = class_of(e["res"])
                k = (c, rel_of(e["att"], mx))
                self.cells[k] = self.cells.get(k, 0) + 1
                pend[e["id"]] = e
                if cfg["http"]:
                    self.http_delivers += 1
                    self.http_mismatch += class_of(e["res"]) != class_of(e["want"])
                if e.get("redir") and c == "denied":
                    self.redir_denied[e["via"]] = self.redir_denied.get(e["via"], 0) + 1
                if e.get("via") == "follow" and e.get("dwire") == 1 and e["res"]["kind"] == "status":
                    self.redir_followed += 1
                if c == "denied" and e.get("seen", e["res"])["kind"] != "denied":
                    self.denied_unseen += 1
                if c == "denied":
                    if cfg["http"]:
                        self.http_denied += 1
                    else:
                        self.stub_denied += 1
            elif ev == "Settle" and e["err"] == "":
                if e["batch"]:
                    if e["bsize"] > 1:
                        self.batch_multi += 1
                    else:
                        self.batch_single += 1
                else:
                    self.per_action += 1
                if e["post"]["st"] == "dead":
                    self.reasons[e["post"]["dr"]] = self.reasons.get(e["post"]["dr"], 0) + 1
                if e["call"] == "nack" and e["post"]["st"] == "queued":
                    self.delays[name] = self.delays.get(name, 0) + 1
                    d = pend.get(e["id"])
                    if d is not None and cfg["kind"] == "delay":
                        t = cfg["targets"][d["tg"]]
                        nominal = min(t["base"] * (2 ** min(d["att"] - 1, 40)), t["cap"])
                        ns = (e["post"]["next"]["s"] - e["now"]["s"]) * 10**9 + e["post"]["next"]["n"] - e["now"]["n"]
                        us = ns / 1000.0
                        j = t["jn"] / t["jd"]
                        if abs(us - nominal) < 0.002:
                            self.exact += 1
                        elif us < nominal:
                            self.below += 1
                        else:
                            self.above += 1
                        if j > 0:
                            pos = (us - nominal * (1 - j)) / (2 * nominal * j)
                            self.near_lo += pos < 0.1
                            self.near_hi += pos > 0.9
                        if j >= 0.05:
                            capped = t["base"] * (2 ** min(d["att"] - 1, 40)) > t["cap"]
                            v = self.jit.setdefault(name, [0, 0, 0, 0, 0, 0])
                            o = 0 if capped else 3
                            v[o] += us > nominal + 0.002
                            v[o + 1] += us < nominal - 0.002
                            v[o + 2] += 1
            elif ev == "Requeue":
                self.requeues += 1


def phase(ctx, name):
    """Wall-clock bookkeeping (evidence only)."""
    import time
    now = time.time()
    last = getattr(ctx, "_phase_t", ctx.t0)
    ctx.cov.setdefault("phases_s", []).append([name, round(now - last, 1)])
    ctx._phase_t = now
    if os.environ.get("VERIF_DEBUG"):
        print("phase %-14s %6.1fs" % (name, now - last), flush=True)


def require(cond, what):
    if not cond:
        raise vf.Infra("vacuous run: " + what)


# ---------------------------------------------------------------- main

def run(ctx):
    vf.build_tool(TOOL)
    rng = random.Random(ctx.seed * 7919 + 13)
    quick = ctx.quick
    runs_by_name = {}
    all_bad = []
    cover = Cover()
    distinct = 0

    # ---- MC + GEN of the table
    phase(ctx, "build")
    rows = mc_table(ctx)
    phase(ctx, "mc-table")

    # ---- MC of the worker-loop state machine and GEN of schedules (independent TLC runs, in parallel)
    single2 = model([("m1", "t1", 0), ("m2", "t1", 0)], {"t1": 1}, 2, 2, True, 3, ["2xx", "5xx", "4xx", "denied", "3xx"], 1)
    multi2 = model([("m1", "t1", 0), ("m2", "t2", 1)], {"t1": 2, "t2": 1}, 2, 2, False, 3, ["2xx", "429", "4xx", "denied"], 1,
                   retry=(1, 3, 1, 2))
    one_all = model([("m1", "t1", 0)], {"t1": 3}, 1, 1, True, 5, ALL_CLASSES, 0 if quick else 2, retry=(1, 3, 1, 1))
    mcs = [("single-batched", single2, 900), ("multi-target", multi2, 900), ("one-all-classes", one_all, 900)]
    if not quick:
        deep = model([("m1", "t1", 0), ("m2", "t2", 1)], {"t1": 3, "t2": 2}, 2, 2, False, 5, ["2xx", "5xx", "4xx", "denied"], 1,
                     retry=(1, 3, 1, 2))
        three = model([("m1", "t1", 0), ("m2", "t1", 0), ("m3", "t1", 2)], {"t1": 2}, 2, 2, True, 3, ["2xx", "timeout", "4xx"], 1)
        mcs += [("deep-multi", deep, 1500), ("three-batched", three, 1500)]
    g_one = model([("m1", "t1", 0)], {"t1": 1}, 1, 1, True, 3, ALL_CLASSES, 0 if quick else 1)
    g_single = model([("m1", "t1", 0), ("m2", "t1", 0)], {"t1": 1}, 2, 2, True, 2, ["2xx", "5xx", "4xx", "denied"], 1)
    g_multi = model([("m1", "t1", 0), ("m2", "t2", 1)], {"t1": 2, "t2": 1}, 2, 2, False, 2, ["2xx", "408", "4xx"], 1)
    g_long = model([("m1", "t1", 0), ("m2", "t2", 0), ("m3", "t1", 1)], {"t1": 3, "t2": 2}, 2, 2, False, 5, ALL_CLASSES, 2)
    g_long1 = model([("m1", "t1", 0), ("m2", "t1", 0), ("m3", "t1", 0)], {"t1": 3}, 2, 2, True, 5, ALL_CLASSES, 2)
    nsim = 60 if quick else 2500
    gens = [("one", g_one, 0, 0, [1, 2]), ("single", g_single, 0, 0, [2, 3, 4]), ("multi", g_multi, 0, 0, [2, 3, 4]),
            ("long", g_long, nsim, 80, [1, 2, 3, 4]), ("long1", g_long1, nsim, 80, [1, 2, 3, 4])]
    tw = 4 if quick else 8
    with cf.ThreadPoolExecutor(max_workers=4 if quick else 3) as ex:
        mc_f = [(nm, ex.submit(mc_machine_run, ctx, nm, mdl, to, tw)) for (nm, mdl, to) in mcs]
        gen_f = [(nm, mdl, concs, ex.submit(gen_run, ctx, nm, mdl, sim, depth, tw)) for (nm, mdl, sim, depth, concs) in gens]
        mc_r = [(nm, f.result()) for nm, f in mc_f]
        gen_r = [(nm, mdl, concs, f.result()) for nm, mdl, concs, f in gen_f]
    for nm, r in mc_r:
        mc_machine_done(ctx, nm, r)
    per_gen = {}
    for nm, mdl, concs, (r, sim) in gen_r:
        scheds = gen_done(ctx, nm, r, sim)
        rs, ndist = runs_from_schedules(rng, "gen-" + nm, mdl, scheds, ["memory"], concs)
        per_gen[nm] = rs
        ctx.count("gen_inputs_" + nm, ndist)
    phase(ctx, "mc+gen")

    # the complete single-message tree (if it fits), and a seeded sample of the other generators, within the budget
    script_runs = []
    budget = 200 if quick else 5000
    backends_s = ["memory", "sqlite"]
    ndrv = 40 if quick else 600
    # exhaustive generators first (complete if they fit into their share), then the simulated ones fill the budget
    chosen = []
    room = max(0, budget - ndrv)
    exh = ["one", "single", "multi"]
    for k, nm in enumerate(exh):
        rs = list(per_gen[nm])
        share = (80 if nm == "one" else 25) if quick else len(rs)
        if len(rs) > share:
            rng.shuffle(rs)
            rs = rs[:share]
        else:
            ctx.count("gen_%s_complete" % nm, 1)
        chosen += rs
    sims = ["long", "long1"]
    room = max(0, budget - ndrv - len(chosen))
    for nm in sims:
        rs = list(per_gen[nm])
        rng.shuffle(rs)
        chosen += rs[:room // len(sims)]
    for i, r in enumerate(chosen):   # every 3rd (quick) / every 2nd schedule on SQLite
        if i % (3 if quick else 2) == 0:
            r2 = dict(r)
            r2["backend"] = "sqlite"
            r2["name"] = r["name"].rsplit("/", 1)[0] + "/sqlite"
            script_runs.append(r2)
        else:
            script_runs.append(r)
    script_runs += driver_runs(rng, ndrv, backends_s)
    ctx.count("script_runs", len(script_runs))
    ctx.sample({"kind": "table row (TLC) and its run", "row": rows[len(rows) // 3], "run": table_runs(rows[len(rows) // 3:len(rows) // 3 + 1], "memory")[0]})
    if per_gen["multi"]:
        ctx.sample({"kind": "TLC-generated schedule input (multi-target)", "run": per_gen["multi"][len(per_gen["multi"]) // 2]})
    distinct += len(set(json.dumps([r["targets"], r["msgs"], r["scripts"], r["requeue"], r["order"], r["conc"], r.get("inject", "")],
                                   sort_keys=True) for r in script_runs))

    # ---- table on the real dispatcher
    tab_mem = table_runs(rows, "memory")
    off = ctx.seed % 10
    tab_sql = table_runs(rows, "sqlite", pick=(lambda i: i % 10 == off) if quick else None)
    htt = http_runs(rows, quick) + redirect_runs(quick)
    ctx.count("table_rows_memory", len(tab_mem))
    ctx.count("table_rows_sqlite", len(tab_sql))
    ctx.count("table_rows_http", len(htt))
    distinct += len(rows)

    # ---- retry configurations: candidates (valid and invalid) go through config.Parse + config.Compile; only accepted ones run
    ncfg = 20 if quick else 300
    cands = retry_candidates(rng, ncfg * 2 + 15)
    cf_in = os.path.join(ctx.scratch, "retry-candidates.txt")
    open(cf_in, "w").write("\n".join(cands) + "\n")
    verdicts = [json.loads(x) for x in vf.tool(TOOL, ["compile", "-in", cf_in], timeout=120).splitlines() if x.strip()]
    accepted = [v["directive"] for v in verdicts if v["accepted"]]
    rejected = [v["directive"] for v in verdicts if not v["accepted"]]
    ctx.count("retry_directives_rejected", len(rejected))
    ctx.count("retry_directives_accepted", len(accepted))
    require(len(rejected) >= 5, "hardly any invalid retry directive was refused by config.Compile")
    require(len(accepted) >= ncfg, "only %d retry configurations were accepted (wanted %d)" % (len(accepted), ncfg))
    accepted = accepted[:ncfg]
    ctx.sample({"kind": "retry directives", "accepted": accepted[:4], "rejected_by_compile": rejected[:4]})
    dly = delay_runs(rng, accepted + rejected[:5], 200, backends_s)   # the harness compiles again; rejected ones produce no trace
    distinct += len(set(accepted))

    groups = [("tabmem", tab_mem, 8), ("tabsql", tab_sql, 4 if quick else 8), ("http", htt, 4), ("script", script_runs, 4 if quick else 8),
              ("delay", dly, 8)]
    all_files = []
    for tag, runs, shards in groups:
        for r in runs:
            runs_by_name[r["name"]] = r
        files, info, sums = execute(ctx, tag, runs, shards=shards)
        ctx.count("behaviours_" + tag, info["traces"])
        ctx.count("delivers_" + tag, info["delivers"])
        ctx.count("aborted_" + tag, info["aborted"])
        if tag == "delay":
            require(info["rejected"] == min(5, len(rejected)) and info["traces"] == len(accepted),
                    "harness and `compile` disagree on accepted retry directives (%d traces, %d rejected)" % (info["traces"], info["rejected"]))
        if tag == "script":
            ctx.count("batch_calls_multi_lease", info["batch_multi"])
            ctx.count("max_blocked_deliveries", info["max_gated"])
        ctx.cov["traces_validated_against_impl"] += info["traces"]
        all_files += files
        if tag == "script" and files:
            ev = vf.load_trace(files[0])[:14] if os.path.getsize(files[0]) < 50 * 1024 * 1024 else []
            ctx.sample({"kind": "trace prefix (%s)" % tag, "events": [{k: v for k, v in e.items() if k != "errtext"} for e in ev]})
        phase(ctx, "run-" + tag)
    res, all_bad = validate(ctx, "all", all_files)
    phase(ctx, "tv")
    for f in all_files:
        cover.scan(f)
    phase(ctx, "coverage-scan")

    if all_bad:
        triage(ctx, all_bad, runs_by_name)

    # ---- non-vacuity
    for c in ALL_CLASSES:
        for rel in ("lt", "eq", "gt"):
            require(cover.cells.get((c, rel), 0) > 0, "no delivery with result class %s at attempt %s Max" % (c, rel))
    for reason in ("no_retry", "policy_denied", "max_retries"):
        require(cover.reasons.get(reason, 0) > 0 or ctx.violations, "dead reason %s never seen" % reason)
    require(cover.conc >= {1, 2, 3, 4}, "concurrency levels seen: %s" % sorted(cover.conc))
    require(cover.backends >= {"memory", "sqlite"}, "backends seen: %s" % sorted(cover.backends))
    require(cover.multi_target > 0, "no multi-target route")
    require(cover.batch_multi > 0 or ctx.violations, "no batched lease mutation with more than one lease")
    require(cover.per_action > 0 and cover.batch_single > 0, "per-action / batched lease mutation paths")
    require(cover.requeues > 0, "no operator requeue")
    require(cover.http_denied > 0 and cover.stub_denied > 0, "policy denial through HTTPDeliverer and through the stub")
    require(cover.http_delivers > 50, "HTTP deliverer rows")
    for via in REDIRECT_VIAS:
        require(cover.redir_denied.get(via, 0) > 0, "no denied redirect hop (%s) through the real HTTPDeliverer" % via)
    require(cover.redir_followed > 0, "control case: no admitted redirect was followed by the real HTTPDeliverer")
    for via, n in sorted(cover.redir_denied.items()):
        ctx.count("redirect_hop_denied_" + via, n)
    ctx.count("redirect_followed", cover.redir_followed)
    ctx.count("denials_not_visible_in_error_chain", cover.denied_unseen)
    require(cover.injected > 0, "no fault-injection run")
    dl = [n for name, n in cover.delays.items() if name.startswith("dly-")]
    require(len(dl) >= ncfg or ctx.violations, "retry configurations with delays: %d" % len(dl))
    require(all(n >= 200 for n in dl) or ctx.violations, "fewer than 200 delays for some retry configuration (min %d)" % (min(dl) if dl else 0))
    require(cover.jit0 > 0 and cover.jit1 > 0, "jitter 0 and jitter 1 configurations")
    require((cover.below > 0 and cover.above > 0 and cover.exact > 0) or ctx.violations, "delays below / above / at the nominal value")
    require((cover.near_lo > 0 and cover.near_hi > 0) or ctx.violations, "delays near both ends of the jitter window")
    # Both sides of the window must actually be used wherever jitter > 0 - also where the cap applies.  A one-sided
    # distribution stays inside the statement's window (so it is no violation), but then the upper / lower bound was
    # never exercised there: e.g. jitter applied before the cap never yields a delay above the capped value.
    for name, v in sorted(cover.jit.items()):
        for (o, what) in ((0, "capped"), (3, "uncapped")):
            if v[o + 2] >= 60 and not ctx.violations:
                require(v[o] > 0, "%s: none of %d delays of %s attempts lies above the nominal value although jitter >= 0.05 "
                                  "(upper half of the window never exercised; jitter applied before the cap?)" % (name, v[o + 2], what))
                require(v[o + 1] > 0, "%s: none of %d delays of %s attempts lies below the nominal value although jitter >= 0.05 "
                                      "(lower half of the window never exercised)" % (name, v[o + 2], what))
    ncap = sum(1 for v in cover.jit.values() if v[2] >= 60)
    require(ncap > 0 or ctx.violations, "no retry configuration with jitter whose cap was reached often enough")
    ctx.count("jitter_configs_with_capped_delays", ncap)

    for k, v in sorted(cover.cells.items()):
        ctx.count("cell_%s_%s" % k, v)
    for k, v in cover.reasons.items():
        ctx.count("dead_" + k, v)
    ctx.count("settle_batch_multi", cover.batch_multi)
    ctx.count("settle_batch_single", cover.batch_single)
    ctx.count("settle_per_action", cover.per_action)
    ctx.count("multi_target_behaviours", cover.multi_target)
    ctx.count("requeues", cover.requeues)
    ctx.count("fault_injection_behaviours", cover.injected)
    ctx.count("delays_total", sum(cover.delays.values()))
    ctx.count("delays_min_per_config", min(dl) if dl else 0)
    ctx.count("delays_below_nominal", cover.below)
    ctx.count("delays_above_nominal", cover.above)
    ctx.count("delays_exact_nominal", cover.exact)
    ctx.count("delays_near_lo", cover.near_lo)
    ctx.count("delays_near_hi", cover.near_hi)
    ctx.count("denied_http", cover.http_denied)
    ctx.count("http_result_differs_from_script", cover.http_mismatch)
    ctx.count("denied_stub", cover.stub_denied)

    ctx.assumptions += [
        "lease mutations on the store succeed (from the property's quantifier): the fake clock only jumps while no lease is held, so no "
        "lease expires under a worker; behaviours with injected store faults are validated for classification and logging but not "
        "for the attempt bound / termination",
        "the store's real-time long poll (Dequeue MaxWait) is replaced by a harness-driven wake-up in the tracing decorator; the "
        "dispatcher code is unchanged",
        "delays are compared in microseconds rounded down/up (at most 1 us of slack on each side, covering float64 -> time.Duration "
        "truncation); retry configurations are restricted to whole microseconds, cap <= 1000 s and jitter with <= 4 decimals "
        "(32-bit TLC integers)",
        "1xx/3xx: the statement only says 'never treated as success'; any bounded non-success outcome is admissible",
        "1xx answers are exercised through the stub Deliverer only (Go's HTTP client never returns them as final status)",
        "memory and SQLite backends only (no PostgreSQL server in the sandbox)",
    ]
    ctx.notes.append("exhaustive applies to the classification table only (every row executed on the memory store%s); scripts, "
                     "schedules and retry configurations are bounded-exhaustive (small scopes) or sampled"
                     % ("" if quick else " and on SQLite"))
    vf.write_evidence(ctx, "model_checking", RULE, extra={
        "evaluations": ctx.cov["schedules_executed"], "distinct_nontrivial": distinct,
        "table_exhaustive": True, "table_rows": len(rows), "scripts_exhaustive": False, "retry_configs_exhaustive": False,
        "trusted_base": ["TLC", "harness/dsp tracing decorator and stub Deliverer", "queue VerifDump hooks"]}, exhaustive=False)


def replay(ctx, path):
    obj = json.load(open(path))
    vf.build_tool(TOOL)
    run_spec = obj["run"]
    files, _, _ = execute(ctx, "replay", [run_spec], shards=1)
    rr = tv(ctx, files, "tv-replay")[0]
    events = vf.load_trace(files[0])
    fl = fails_of(rr)
    if not fl:
        print("replay: trace accepted (no divergence)")
        return
    hit = False
    for (line, ev, c) in fl:
        _, cls, rel = context_of(events, line)
        sig = "dispatch/%s/%s/%s" % (c, cls, rel)
        e = events[line - 1]
        print("event %d %s: check '%s' failed [%s]: %s" % (line - 1, e.get("ev"), c, sig,
                                                          json.dumps({k: v for k, v in e.items() if k not in ("now", "errtext")})))
        if sig == obj["sig"]:
            hit = True
    if hit:
        vf.report(ctx, obj["sig"], "replayed: " + obj.get("text", ""), {"layer": obj.get("layer"), "run": run_spec})
    else:
        first = fl[0]
        _, cls, rel = context_of(events, first[0])
        vf.report(ctx, "dispatch/%s/%s/%s" % (first[2], cls, rel), "replayed with a different divergence: " + obj.get("text", ""),
                  {"layer": obj.get("layer"), "run": run_spec})
