"""C14, API part: the operator mutations and listings driven THROUGH the Admin HTTP API and THROUGH the MCP tools
(admin-proxy mode) of a production-wired instance (harness/operapi, tool hkv-oper).

The schedules, the executor, the event format and the store rule are those of layer L0 (QueueGen 'operator' / 'filter'
families, the l0 driver profile 'operator', l0.ExecOp, QueueTrace); a queue.Store decorator answers every operator
method by a real Admin API request / MCP tool call against an instance that serves the very store object the events
dump.  What the API layer adds (refusals: audit reason, id-list shape, limit spelling, state outside the operation's
set, managed-route selector) is specified in spec/OperApi.tla and checked by spec/OperApiTrace.tla, which EXTENDS
QueueTrace and only conjoins requirements (no QueueTrace check is weakened or skipped)."""
import json
import os
import random
import time

import vf
from checks import queuefam as q

SURFACES = ["admin-http-global", "admin-http-selector", "admin-http-scoped", "mcp-proxy-global", "mcp-proxy-scoped", "mcp-direct"]
MANAGED = ["admin-http-selector", "admin-http-scoped", "mcp-proxy-scoped", "mcp-direct"]   # configurations with managed routes
UNMANAGED = ["admin-http-global", "mcp-proxy-global", "mcp-direct"]                        # ... without (mcp-direct: every third schedule)
DIRECT = "mcp-direct"                                                                      # SQLite only
BACKENDS = ["memory", "sqlite"]
MARK = "L1/oper"

RULE_L1 = ("L1 (API surfaces): the same TLC-generated edge schedules (QueueGen operator + filter + lease families) and seeded driver schedules "
           "(l0 profile 'operator', plus 'opermix': mixed routes x mixed targets on one route, every subset of the four filter criteria, "
           "limits 0 / 1 / above the matches / 1000 / 1001 / -1, received_at ties, every source state, preview followed by the real call, "
           "unknown / duplicate / padded / blank / 1000 / 1001 ids, populations above the 100 and 1000 caps) executed by the L0 executor on a "
           "queue.Store decorator whose operator methods are real Admin API requests (global endpoints; application+endpoint_name selector; "
           "endpoint-scoped paths) or real MCP tool calls in admin-proxy mode (route selector; application+endpoint_name selector) against a "
           "production-wired instance (app.VerifBoot) serving the dumped store object, memory and SQLite, or real MCP tool calls in direct mode "
           "(the tool opens the SQLite file the harness store object has open; fake clock through the mcp.sqlite_now seam); validated by OperApiTrace = QueueTrace "
           "(unchanged) + the API layer of OperApi.tla as an explicit step (a refused request must be one the layer may refuse - audit reason, "
           "id-list shape, limit spelling, state outside the operation's set, managed-route selector - and must change nothing; a passed request "
           "must not be one the layer must refuse - audit reason, managed-route selector -, its wire spelling must bind to the abstract "
           "arguments, MCP audit counts = answer counts); OperApiMC: everything the layer passes is inside the store contract.")


def lap_factory(ctx):
    t = [time.time()]

    def lap(what):
        now = time.time()
        print("  [%6.1fs] %s" % (now - t[0], what), flush=True)
        ctx.notes.append("%s: %.1fs" % (what, now - t[0]))
        t[0] = now
    return lap


def design_mc(ctx):
    r = vf.mc_run(ctx, "operapi", "OperApiMC", {}, {}, invariants=["DesignOK", "LimitMeaning"], timeout=300, workers=4, heap="3g")
    vf.mc_expect_ok(ctx, r, "OperApiMC")
    return r


def execute(ctx, sched_file, tag, spread, surfaces=None, backends=None, only=None, selftest=None, big_one=False, shards=None):
    """Run hkv-oper on a schedule file; returns (trace files, summary)."""
    shards = shards or (vf.NCPU if only is None else 1)
    out = os.path.join(ctx.shm, "oper-" + tag)
    args = ["run", "-sched", sched_file, "-out", out, "-shards", str(shards), "-scratch", ctx.shm,
            "-surfaces", ",".join(surfaces or SURFACES), "-backends", ",".join(backends or BACKENDS)]
    if spread:
        args.append("-spread")
    if only:
        args += ["-only", only]
    if big_one:
        args.append("-big-one-backend")
    env = {"HKV_OPER_SELFTEST": selftest or os.environ.get("HKV_OPER_SELFTEST", "")}
    info = json.loads(vf.tool("hkv-oper", args, timeout=1500, env=env).strip().splitlines()[-1])
    files = [f for f in ["%s.%d" % (out, i) for i in range(shards)] if os.path.exists(f) and os.path.getsize(f) > 0]
    return files, info


def validate(ctx, files, name):
    env_before = os.environ.get("JAVA_TOOL_OPTIONS")
    os.environ["JAVA_TOOL_OPTIONS"] = "-XX:ParallelGCThreads=2 -XX:TieredStopAtLevel=1"
    try:
        return vf.tv_run(ctx, files, module="OperApiTrace", spec="OperSpec", name=name, timeout=900)
    finally:
        if env_before is None:
            os.environ.pop("JAVA_TOOL_OPTIONS", None)
        else:
            os.environ["JAVA_TOOL_OPTIONS"] = env_before


def run_chunked(ctx, sched_file, tag, spread, chunk, big_one=False, surfaces=None, backends=None, shards=None):
    """Execute + validate a schedule file in chunks of `chunk` schedules (bounds the size of a trace file: TLC holds a
    whole file in memory).  Returns (divergences, merged summary)."""
    lines = [ln for ln in open(sched_file) if ln.strip()]
    divs, total = [], {"traces": 0, "events": 0, "counters": {}}
    for ci in range(0, len(lines), chunk):
        part = sched_file if len(lines) <= chunk else "%s.part%d" % (sched_file, ci // chunk)
        if part != sched_file:
            with open(part, "w") as f:
                f.writelines(lines[ci:ci + chunk])
        files, info = execute(ctx, part, "%s-%d" % (tag, ci // chunk), spread=spread, big_one=big_one, surfaces=surfaces, backends=backends, shards=shards)
        divs += divergences(validate(ctx, files, "tv-oper-%s-%d" % (tag, ci // chunk)))
        for f in files:
            os.remove(f)
        total["traces"] += info["traces"]
        total["events"] += info["events"]
        merge(total["counters"], info)
    return divs, total


def divergences(results):
    """[(trace name, line, event name, check, event dict)] from TV results; raises Infra on TLC errors."""
    out = []
    for r in results:
        if r["error"]:
            raise vf.Infra("OperApiTrace error in %s: %s\n%s" % (r["file"], r["error"], r.get("out_tail", "")))
        fails = list(r["fails"])
        if r["matched"] < r["total"]:
            fails.append((r["matched"] + 1, None, "rejected"))
        if not fails:
            continue
        events = vf.load_trace(r["file"])
        for (line, ev, check) in fails:
            e = events[line - 1]
            name, first = vf.trace_of_line(events, line)
            out.append((name, line - first, e.get("ev", "?") if ev is None else ev, check, e))
    return out


def signature(name, ev, check, e):
    parts = name.split("/")
    surface, backend = (parts[-2], parts[-1]) if len(parts) >= 3 else ("?", "?")
    if ev == "ApiRefused":
        ev = "ApiRefused:" + str(e.get("a", {}).get("orig", ""))
    return "%s/%s/%s/%s/%s" % (MARK, surface, backend, ev, check)


def find_schedule(files, name):
    base = name.rsplit("/", 2)[0]
    for f in files:
        for line in open(f):
            if '"%s"' % base in line[:200]:
                s = json.loads(line)
                if s["name"] == base:
                    return s
    return None


def reproduce(ctx, sched, surface, backend):
    """Re-execute one schedule on one surface / backend and validate it; returns the divergences."""
    one = os.path.join(ctx.scratch, "oper-repro-sched.ndjson")
    with open(one, "w") as f:
        f.write(json.dumps(sched) + "\n")
    files, _ = execute(ctx, one, "repro", spread=False, surfaces=[surface], backends=[backend], only=sched["name"])
    return divergences(validate(ctx, files, "tv-oper-repro"))


def triage(ctx, divs, sched_files, max_report=12):
    """One representative per signature, re-executed before it is reported."""
    reps = {}
    for (name, step, ev, check, e) in divs:
        reps.setdefault(signature(name, ev, check, e), (name, step, ev, check, e))
    reported = 0
    for sig, (name, step, ev, check, e) in sorted(reps.items()):
        parts = name.split("/")
        surface, backend = parts[-2], parts[-1]
        sched = find_schedule(sched_files, name)
        if sched is None:
            raise vf.Infra("cannot find the schedule of failing trace " + name)
        again = reproduce(ctx, sched, surface, backend)
        same = [d for d in again if signature(d[0], d[2], d[3], d[4]) == sig]
        if not same:
            raise vf.Infra("divergence %s in %s did not reproduce" % (sig, name))
        (_, step2, _, _, e2) = same[0]
        api = e2.get("api", {})
        text = "%s through %s (%s, %s) on %s: check '%s' failed at step %d of %s; request %s; answer %s" % (
            e2.get("a", {}).get("orig", ev), surface, api.get("form", "-"), api.get("via", "-"), backend, check, step2, name,
            api.get("req", json.dumps(e2.get("a"))[:300]), json.dumps(e2.get("r"))[:300])
        if vf.report(ctx, sig, text, {"layer": MARK, "surface": surface, "backend": backend, "schedule": sched, "failed_step": step2,
                                      "check": check, "event": {k: v for k, v in e2.items() if k not in ("post", "rank")}}):
            reported += 1
        if reported >= max_report:
            break


BY_ID = ["cancel", "requeue", "resume", "requeuedead", "deletedead"]
BY_FILTER = ["cancel", "requeue", "resume"]
FROM = {"cancel": ["queued", "leased", "dead"], "requeue": ["dead", "canceled"], "resume": ["canceled"]}
CRIT_RT = ["rt", "rt+tg", "rt+st", "rt+before", "rt+tg+st", "rt+tg+before", "rt+st+before", "rt+tg+st+before"]
CRIT_NO_RT = ["none", "tg", "st", "before", "tg+st", "tg+before", "st+before", "tg+st+before"]


def account(ctx, counters):
    """Evidence counters and the non-vacuity requirements of the API part."""
    c = counters
    missing = []

    def need(key, label=None):
        if c.get(key, 0) <= 0:
            missing.append(label or key)

    for s in SURFACES:
        for op in BY_ID:
            ctx.count("api/%s/%s/by_id" % (s, op), c.get("op|%s|%s|byid|ok" % (s, op), 0))
            need("op|%s|%s|byid|ok" % (s, op))
        for op in BY_FILTER:
            ctx.count("api/%s/%s/by_filter" % (s, op), c.get("op|%s|%s|byfilter|ok" % (s, op), 0))
            need("op|%s|%s|byfilter|ok" % (s, op))
            for st in FROM[op]:
                need("from_state|%s|%s|%s" % (s, op, st))
        for what in ("messages", "dlq"):
            ctx.count("api/%s/list_%s" % (s, what), c.get("op|%s|list|%s|ok" % (s, what), 0))
            need("op|%s|list|%s|ok" % (s, what))
        ctx.count("api/%s/filter_target_excluded_on_multi_target_route" % s, c.get("target_excluded|%s" % s, 0))
        need("target_excluded|%s" % s)
        ctx.count("api/%s/preview" % s, c.get("preview|%s" % s, 0))
        need("preview|%s" % s)
        ctx.count("api/%s/limit_binding" % s, c.get("limit_binding|%s" % s, 0))
        need("limit_binding|%s" % s)
        need("limit_above_matches|%s" % s)
        for cap in ("cap_default_100", "cap_max_1000"):
            ctx.count("api/%s/%s_binding" % (s, cap), c.get("%s|%s" % (cap, s), 0))
            need("%s|%s" % (cap, s))
        ctx.count("api/%s/refused" % s, sum(v for k, v in c.items() if k.startswith("refused|%s|" % s)))
        for why in ("no_audit", "ids", "limit", "state"):
            need("refused|%s|%s" % (s, why))
        for lc in ("0", "1", "1000"):
            need("limit|%s|%s" % (s, lc))
        if not s.startswith("mcp-"):
            need("limit|%s|gt1000" % s)       # the tools refuse a limit above 1000; the Admin API caps it
        for k in ("ids_duplicate", "ids_unknown", "ids_1000"):
            need("%s|%s" % (k, s))
        for crit in CRIT_RT:
            need("crit|%s|%s" % (s, crit))
        if s in MANAGED:
            ctx.count("api/%s/filter_target_excluded_scoped_form" % s, c.get("target_excluded_scoped|%s" % s, 0))
            need("target_excluded_scoped|%s" % s)
            need("refused|%s|selector" % s)
            form = "selector" if s in ("admin-http-selector", DIRECT) else "path"
            need("form|%s|%s|ok" % (s, form))
            need("form|%s|global|ok" % s)     # an unmanaged route next to managed ones
            ctx.count("api/%s/refused_actor_policy" % s, c.get("refused|%s|actor" % s, 0))
            need("refused|%s|actor" % s)      # actor policy of scoped managed operations does not admit the actor
        if s in UNMANAGED:
            for crit in CRIT_NO_RT:
                need("crit|%s|%s" % (s, crit))
    if missing:
        raise vf.Infra("vacuous API run, never exercised: %s" % ", ".join(missing[:25]))


def merge(total, info):
    for k, v in info["counters"].items():
        total[k] = total.get(k, 0) + v


def l1_part(ctx):
    lap = lap_factory(ctx)
    vf.build_tool("hkv-oper")
    lap("L1 build hkv-oper")
    design_mc(ctx)
    lap("L1 MC OperApiMC")
    counters = {}
    sched_files = []
    all_divs = []

    # (a) TLC-generated edge schedules, each executed on one (surface, backend) pair in rotation
    cfg = q.spec_cfg()
    if ctx.quick:
        gkw, ncap = dict(ids=2, family=("operator", "filter", "lease"), horizon=0, maxep=1, maxins=2, pick="insertion", ticks=(10,), delays=(0,), ttls=(30,)), 1000
    else:
        # (the 3-id graph without clock steps: 82 k edge schedules in under a minute; the store-level part runs the one with ticks)
        gkw, ncap = dict(ids=3, family=("operator", "filter", "lease"), horizon=0, maxep=1, maxins=3, pick="insertion", ticks=(10,), delays=(0,), ttls=(30,)), 16000
    scheds, edges, _ = q.gen_schedules(ctx, "operapi", cfg, depth=0, **gkw)
    if not scheds:
        raise vf.Infra("generator produced no schedules for the API part")
    total = len(scheds)
    if total > ncap:
        scheds = random.Random(ctx.seed).sample(scheds, ncap)
        ctx.notes.append("L1 GEN operapi: %d of %d edge schedules executed (seeded sample)" % (ncap, total))
    gen_file = os.path.join(ctx.scratch, "gen-operapi.ndjson")
    q.write_schedules(gen_file, scheds, cfg, "gen-operapi")
    sched_files.append(gen_file)
    lap("L1 GEN operapi (%d edges, %d of %d schedules)" % (edges, len(scheds), total))
    divs, info = run_chunked(ctx, gen_file, "gen", True, 8000)
    merge(counters, info)
    all_divs += divs
    ctx.cov["traces_validated_against_impl"] += info["traces"]
    ctx.cov["schedules_executed"] += info["traces"]
    ctx.count("api/gen_schedules", len(scheds))
    lap("L1 execute+TV gen (%d traces, %d events)" % (info["traces"], info["events"]))

    # (b) seeded driver schedules, each executed on EVERY surface x backend
    n_mix, n_drv, n_big, ops = (14, 8, 2, 45) if ctx.quick else (300, 180, 10, 70)
    drv_file = os.path.join(ctx.scratch, "drv-operapi.ndjson")
    vf.tool("hkv-oper", ["drive", "-seed", str(ctx.seed), "-n", str(n_drv), "-ops", str(ops), "-mix", str(n_mix), "-big", str(n_big), "-sched", drv_file])
    sched_files.append(drv_file)
    divs, info = run_chunked(ctx, drv_file, "drv", False, 120, big_one=ctx.quick)
    merge(counters, info)
    all_divs += divs
    ctx.cov["traces_validated_against_impl"] += info["traces"]
    ctx.cov["schedules_executed"] += info["traces"]
    ctx.count("api/driver_schedules", n_mix + n_drv + n_big)
    lap("L1 execute+TV driver (%d traces, %d events)" % (info["traces"], info["events"]))
    # (c) mcp-direct runs on SQLite only: a second set of driver schedules for it alone, so that it sees as many traces as
    # the surfaces that run on two backends
    drv2_file = os.path.join(ctx.scratch, "drv2-operapi.ndjson")
    vf.tool("hkv-oper", ["drive", "-seed", str(ctx.seed + 1000), "-n", str(n_drv), "-ops", str(ops), "-mix", str(n_mix), "-big", "0", "-sched", drv2_file])
    sched_files.append(drv2_file)
    divs, info = run_chunked(ctx, drv2_file, "drv2", False, 1200, surfaces=[DIRECT], backends=["sqlite"], shards=4 if ctx.quick else None)
    merge(counters, info)
    all_divs += divs
    ctx.cov["traces_validated_against_impl"] += info["traces"]
    ctx.cov["schedules_executed"] += info["traces"]
    ctx.count("api/driver_schedules_direct_only", n_mix + n_drv)
    lap("L1 execute+TV driver, mcp-direct only (%d traces, %d events)" % (info["traces"], info["events"]))
    with open(drv_file) as f:
        s = json.loads(f.readline())
        s["ops"] = s["ops"][-8:]
        ctx.sample({"kind": "API part: opermix schedule (last 8 ops), executed through every surface on both backends", **s})

    triage(ctx, all_divs, sched_files)
    if not ctx.violations:
        account(ctx, counters)
    else:
        for k, v in sorted(counters.items()):
            if k.startswith("op|"):
                ctx.count("api/" + k.replace("|", "/"), v)
    lap("L1 triage + accounting")
    ctx.assumptions += [
        "API part: surfaces covered = Admin HTTP API (global endpoints, application+endpoint_name selector, endpoint-scoped paths), MCP tools in "
        "admin-proxy mode (route selector and application+endpoint_name selector) on memory and SQLite, and MCP tools in DIRECT mode (mcp-direct, "
        "SQLite only): the server is started with --db naming the same database file the harness SQLiteStore object has open and a "
        "configuration with queue backend sqlite; every tool call opens its own SQLiteStore on that file (clock seam verifhook 'mcp.sqlite_now', "
        "/repo 35ea3c1; the seam is one process-global function, so direct-mode tool calls of the shards of one process are serialised and the "
        "published function reads the clock of the call in progress). messages_publish is not driven here (publish is C15 / C12; its direct mode "
        "is covered by the McpPublish admission scenario)",
        "mcp-direct, two store objects on one WAL file: (a) the per-call object has NO retention setting (openSQLiteStore passes none) and zeroed "
        "throttle state, so it never prunes, while a listing on the harness object would run the configured prune first - this surface therefore "
        "runs retention-free (prune interval 0, no queue / DLQ retention; delivered retention kept, depth limit and drop policy kept) and "
        "QueueTrace's vol check (last prune / last sweep of the harness object unchanged by operator calls and listings) holds as for the other "
        "surfaces; operator mutations and listings never sweep leases. (b) the harness object caches only the throttle instants, metrics and the "
        "queueLikelyFull hint, which is re-validated against the queue_counters table before it refuses; dumps and every later direct operation "
        "(enqueue under a depth limit, dequeue, lease operations) go through SQL and are validated against the post-state the tool left. (c) the "
        "direct-mode policy checks (managed-route selector rule from the compiled configuration, actor policy of scoped managed operations, id "
        "mutation policy context) are the same OperApi.tla refusal classes; a refusal must leave the file unchanged",
        "API part: in every fifth schedule of a configuration with managed routes defaults.publish_policy actor_allow / actor_prefix does not "
        "admit the harness's actor: scoped by-filter mutations MUST be refused (documented), by-id mutations MAY be (the layer refuses them when "
        "they touch a managed route's message in a state the operation is defined for), everything refused changes nothing",
        "API part: by-id answers carry one count (changed); `matched` of the store response is filled with it. The DLQ listing does not carry "
        "state / next_run_at: completed from the store dump by id (those two field checks are vacuous on the API surfaces, checked at L0)",
        "API part: where the API layer legitimately differs from the store (request validation) it is modelled EXPLICITLY as a thin spec module, "
        "spec/OperApi.tla (validation outcome first, then the Queue.tla operator), checked by spec/OperApiTrace.tla (EXTENDS QueueTrace unchanged; "
        "adds the ApiRefused action - refusal must be one of the layer's validation cases and must leave dump and throttle state unchanged - and "
        "conjoins api_passes / binding_limit / binding_ids / audit_counts to every passed operator event). The layer MUST refuse a missing audit "
        "reason and a route-less / managed-route global filter when managed routes exist (documented); it MAY refuse an id list that is empty, "
        "has a blank entry or more than 1000 entries, a by-filter state outside the operation's set, and a limit spelled <= 0 (GET listings, MCP), "
        "< 0 (POST by-filter) or > 1000 (MCP) - as the pinned tree does; passing such a request on instead is accepted too, because the store "
        "rule is total on those arguments and the answer is then held to it",
        "API part: a refused operation whose only fault is the limit spelling / a blank id is followed by the nearest accepted request (limit "
        "clamped into 0..1000, blank ids left out) as a NEW operation with its own event, so schedules stay on their generated path; "
        "refusal-provoking spellings (no audit reason, extra blank id, 1001 ids, literal limit 0) are inserted before a seeded share of the calls",
        "API part: the listings' order argument does not exist on the API (newest first only) and FilterRace (pause between the two SQLite "
        "statements, a store-level hook) is executed as the plain mutation followed by the inner operations; both are exercised at L0",
    ]


def replay(ctx, obj):
    """Re-execute the schedule of an API-part replay file on its surface / backend and validate it."""
    vf.build_tool("hkv-oper")
    divs = reproduce(ctx, obj["schedule"], obj["surface"], obj["backend"])
    if divs:
        for (name, step, ev, check, e) in divs:
            api = e.get("api", {})
            print("step %d %s check '%s' failed: via %s request %s answer %s" % (step, ev, check, api.get("via"), api.get("req"), json.dumps(e.get("r"))[:300]))
        vf.report(ctx, obj["sig"], "replayed: " + obj.get("text", ""), {k: obj[k] for k in ("layer", "surface", "backend", "schedule")})
    else:
        print("replay: trace accepted (no divergence)")
