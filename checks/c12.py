"""C12 - admission limits: depth, drop policy (store level); size and rate limits (L1 part, when built)."""
from checks import queuefam as q

RULE = ("MC: QueueMC (admission + lease families, max_depth 1..2, both drop policies, retention on/off) with DepthBound / DropRule / "
        "FailureIsNoop; GEN: every edge of the bounded graph incl. batches larger than the remaining capacity, duplicate ids in batch and in "
        "queue, interleaved dequeues / acks; seeded 'admission' driver (max_depth 1..4, memory-pressure limits, explicit received_at so that "
        "'oldest' is exercised, operator requeue lifting the count above the limit); executed on memory and SQLite; every event validated by "
        "TLC: refusal => table unchanged (apart from the sanctioned prune), victims = oldest queued, never leased, exactly as many as needed, "
        "only when the new messages are stored. distinct_nontrivial = validated events.")
PROPS = ["DepthBound", "DropRule", "FailureIsNoop", "Conservation"]
FAM = ("admission", "lease", "operator")


def run(ctx):
    d1 = q.spec_cfg(maxDepth=1, drop="drop_oldest")
    d2 = q.spec_cfg(maxDepth=2, drop="drop_oldest")
    r2 = q.spec_cfg(maxDepth=2, drop="reject")
    dd = q.spec_cfg(maxDepth=2, drop="drop_oldest", delivMaxAge=20, pruneInt=10, pressItems=2)
    if ctx.quick:
        plan = {"mc": [("adm_drop", d2, PROPS, dict(ids=3, family=("admission", "lease"), horizon=10, maxep=1, maxins=3, ticks=(10,), delays=(0,), ttls=(10,))),
                       ("adm_reject", r2, PROPS, dict(ids=3, family=("admission", "lease"), horizon=10, maxep=1, maxins=3, ticks=(10,), delays=(0,), ttls=(10,)))],
                "gen": [("adm_drop", d2, dict(ids=3, family=("admission",), horizon=10, maxep=1, maxins=4, pick="insertion", ticks=(10,), delays=(0,), ttls=(10,)), 2),
                        ("adm_d1", d1, dict(ids=2, family=("admission", "lease"), horizon=10, maxep=1, maxins=2, pick="insertion", ticks=(10,), delays=(0,), ttls=(10,)), 2)],
                "drv": [("adm", "admission", 150, 70, {})]}
    else:
        plan = {"mc": [(n, c, PROPS, dict(ids=3, family=FAM, horizon=20, maxep=1, maxins=4, ticks=(10,), delays=(0,), ttls=(10,), timeout=3000))
                       for n, c in (("adm_d1", d1), ("adm_d2", d2), ("adm_r2", r2), ("adm_dd", dd))],
                "gen": [("adm_drop", d2, dict(ids=3, family=FAM, horizon=10, maxep=1, maxins=4, pick="insertion", ticks=(10,), delays=(0,), ttls=(10,)), 1),
                        ("adm_rej", r2, dict(ids=3, family=("admission", "lease"), horizon=10, maxep=1, maxins=4, pick="insertion", ticks=(10,), delays=(0,), ttls=(10,)), 1),
                        ("adm_dd", dd, dict(ids=3, family=("admission", "lease", "read"), horizon=20, maxep=1, maxins=4, pick="insertion", ticks=(10,), delays=(0,), ttls=(10,)), 1)],
                "drv": [("adm", "admission", 4000, 90, {})]}
    q.run_plan(ctx, plan, RULE, assumptions=["store-level part: 503 / 413 / 429 mapping, body and header size limits and the ingress token bucket are the L1 part"])


def replay(ctx, path):
    q.replay(ctx, path)
