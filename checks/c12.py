"""C12 - admission limits: depth and drop policy (store level, L0) and rate limit / size limits / fan-out rule (production wiring, L1)."""
import json
import os
import re

import vf
from checks import queuefam as q

RULE = ("MC: QueueMC (admission + lease families, max_depth 1..2, both drop policies, retention on/off) with DepthBound / DropRule / "
        "FailureIsNoop; GEN: every edge of the bounded graph incl. batches larger than the remaining capacity, duplicate ids in batch and in "
        "queue, interleaved dequeues / acks; seeded 'admission' driver (max_depth 1..4, memory-pressure limits, explicit received_at so that "
        "'oldest' is exercised, operator requeue lifting the count above the limit); executed on memory and SQLite; every event validated by "
        "TLC: refusal => table unchanged (apart from the sanctioned prune), victims = oldest queued, never leased, exactly as many as needed, "
        "only when the new messages are stored. L1: Admission.tla (exact token bucket in milli-tokens, RateBound model-checked over all arrival / "
        "refill interleavings); TLC-generated arrival sequences (gaps exactly on, just before and just after refill instants, bursts of 4 "
        "concurrent requests, idle gaps, route with its own limiter vs routes under the global limiter vs unknown path), body and header sizes "
        "at limit-1 / limit / limit+1 on a route with own limits and one with the defaults, and a 3-target fan-out into a queue with room for "
        "0..4 messages are executed on the production wiring (app.VerifBoot, fake clock in the limiters) and validated by TLC "
        "(AdmissionTrace: admitted => the exact bucket holds a whole token; 429 / 413 / 503 store nothing; part-way refused fan-out keeps "
        "exactly the earlier targets' copies). distinct_nontrivial = validated events.")
PROPS = ["DepthBound", "DropRule", "FailureIsNoop", "Conservation"]
FAM = ("admission", "lease", "operator")


def run(ctx):
    d1 = q.spec_cfg(maxDepth=1, drop="drop_oldest")
    d2 = q.spec_cfg(maxDepth=2, drop="drop_oldest")
    r2 = q.spec_cfg(maxDepth=2, drop="reject")
    dd = q.spec_cfg(maxDepth=2, drop="drop_oldest", delivMaxAge=20, pruneInt=10, pressItems=2)
    if ctx.quick:
        plan = {"mc": [("adm_drop", d2, PROPS, dict(ids=3, family=("admission", "lease"), horizon=10, maxep=1, maxins=3, ticks=(10,), delays=(0,), ttls=(10,))),
                       ("adm_reject", r2, PROPS, dict(ids=3, family=("admission", "lease"), horizon=10, maxep=1, maxins=3, ticks=(10,), delays=(0,), ttls=(10,)))],
                "gen": [("adm_drop", d2, dict(ids=3, family=("admission",), horizon=10, maxep=1, maxins=4, pick="insertion", ticks=(10,), delays=(0,), ttls=(10,)), 2),
                        ("adm_d1", d1, dict(ids=2, family=("admission", "lease"), horizon=10, maxep=1, maxins=2, pick="insertion", ticks=(10,), delays=(0,), ttls=(10,)), 2)],
                "drv": [("adm", "admission", 150, 70, {})]}
        guard = q.spec_cfg(maxDepth=2, drop="drop_oldest", delivMaxAge=100000, pressItems=1)
        plan["gen"].append(("guards", guard, dict(ids=3, family=("lease", "admission"), horizon=0, maxep=1, maxins=3, pick="insertion",
                                                  ttls=(10,), ticks=(10,), delays=(0,)), 4))
    else:
        plan = {"mc": [(n, c, PROPS, dict(ids=3, family=FAM, horizon=20, maxep=1, maxins=4, ticks=(10,), delays=(0,), ttls=(10,), timeout=3000))
                       for n, c in (("adm_d1", d1), ("adm_d2", d2), ("adm_r2", r2), ("adm_dd", dd))],
                # measured: 190k / 55k / 578k edge schedules; a seeded sample of 40k of each is executed on both backends
                "gen": [("adm_drop", d2, dict(ids=3, family=("admission", "lease"), horizon=10, maxep=1, maxins=4, pick="insertion", ticks=(10,), delays=(0,), ttls=(10,)), 1),
                        ("adm_rej", r2, dict(ids=3, family=("admission", "lease"), horizon=10, maxep=1, maxins=4, pick="insertion", ticks=(10,), delays=(0,), ttls=(10,)), 1),
                        ("adm_dd", dd, dict(ids=3, family=("admission", "lease", "read"), horizon=10, maxep=1, maxins=3, pick="insertion", ticks=(10,), delays=(0,), ttls=(10,)), 1)],
                "gen_cap": 40000,   # first complete run: 68 min with a cap of 60000 on a busy machine
                "drv": [("adm", "admission", 4000, 90, {})]}
    l1_part(ctx)
    q.run_plan(ctx, plan, RULE, assumptions=["token bucket: one token of slack on refusals for the implementation's floating-point refill (the statement is an upper bound)",
                                             "rate windows that span a configuration reload are excluded (property quantifier)",
                                             "publish-side 503 / duplicate handling is covered by C15; memory backend for the L1 part"])


RE_ARR = re.compile(r'^<<"ARRIVALS", "(.*)">>$')


def l1_part(ctx):
    vf.build_hkv()
    # measured (8 workers): MaxT 800 -> 5.0M states / 23 s, 1000 -> 55M / 240 s, 1200 -> > 200M
    steps = {"Steps": {0, 100, 199, 200, 201, 1000}, "Stale": {0, 150} if ctx.quick else {0, 1, 150}}
    r = vf.mc_run(ctx, "ratebound", "Admission", steps, {"Rps": 5, "Burst": 3, "MaxT": 800 if ctx.quick else 1000, "Rewind": False},
                  invariants=["RateBound"], timeout=1200, workers=8 if ctx.quick else vf.NCPU)
    vf.mc_expect_ok(ctx, r, "Admission RateBound")
    bad = vf.mc_run(ctx, "ratebound_rewind", "Admission", steps, {"Rps": 5, "Burst": 3, "MaxT": 800, "Rewind": True}, invariants=["RateBound"], timeout=600, workers=4)
    if bad["ok"] and not bad["violated"]:
        raise vf.Infra("Admission.tla accepts the variant that rewinds the refill reference on a stale timestamp (vacuous model)")
    depth, num = (8, 150) if ctx.quick else (14, 3000)
    g = vf.mc_run(ctx, "admgen", "AdmissionGen", {"Gaps": {0, 1, 199, 200, 201, 499, 500, 1000, 3000, -1, -150, -400}, "Targets": {"own", "g1", "g2", "none"}}, {"Depth": depth},
                  timeout=600, workers=1, extra=["-simulate", "num=%d" % num, "-depth", str(depth + 1), "-seed", str(ctx.seed)])
    if g["error"]:
        raise vf.Infra("AdmissionGen failed: %s" % g["error"])
    seqs = []
    for line in g["out"].splitlines():
        m = RE_ARR.match(line)
        if m:
            seqs.append(json.loads(json.loads('"' + m.group(1) + '"')))
    if not seqs:
        raise vf.Infra("no arrival sequences generated")
    ctx.sample({"kind": "TLC-generated arrival sequence", "arr": seqs[0]})
    af = os.path.join(ctx.scratch, "arrivals.ndjson")
    with open(af, "w") as f:
        for i, s in enumerate(seqs):
            f.write(json.dumps({"name": "arr-%04d" % i, "arr": s}) + "\n")
    out = os.path.join(ctx.shm, "adm-trace")
    info = json.loads(vf.hkv(["adm-run", "-arrivals", af, "-out", out, "-scratch", ctx.shm]).strip().splitlines()[-1])
    res = vf.tv_run(ctx, [out], module="AdmissionTrace", name="tv-adm")[0]
    ctx.cov["traces_validated_against_impl"] += info["traces"]
    ctx.cov["schedules_executed"] += info["traces"]
    if res["error"]:
        raise vf.Infra("AdmissionTrace error: %s\n%s" % (res["error"], res.get("out_tail", "")))
    events = vf.load_trace(out)
    n429 = sum(1 for e in events if e["ev"] == "Rate" and e["admitted"] < e["m"])
    nadm = sum(e["admitted"] for e in events if e["ev"] == "Rate")
    n413 = sum(1 for e in events if e["ev"] == "Size" and e["status"] == 413)
    ctx.count("rate_refusals", n429)
    ctx.count("rate_admitted", nadm)
    ctx.count("size_413", n413)
    if n429 == 0 or nadm == 0 or n413 == 0:
        raise vf.Infra("vacuous L1 admission run")
    fails = list(res["fails"])
    if res["matched"] < res["total"]:
        fails.append((res["matched"] + 1, events[res["matched"]].get("ev", "?"), "rejected"))
    seen = {}
    for (line, ev, check) in fails:
        e = events[line - 1]
        sig = "L1/admission/%s/%s/%s" % (ev, check, e.get("limiter", e.get("route", e.get("room", ""))))
        nm, start = vf.trace_of_line(events, line)
        seen.setdefault(sig, (nm, e, line - start))
    for sig, (nm, e, _) in sorted(seen.items()):
        # reproduce: the arrival sequences are deterministic on the fake clock (bursts may vary in which request is refused, not in how many)
        out2 = os.path.join(ctx.shm, "adm-trace-repro")
        vf.hkv(["adm-run", "-arrivals", af, "-out", out2, "-scratch", ctx.shm])
        rr = vf.tv_run(ctx, [out2], module="AdmissionTrace", name="tv-adm-repro")[0]
        if not any(c == sig.split("/")[3] for (_, _, c) in rr["fails"]) and rr["matched"] == rr["total"]:
            raise vf.Infra("divergence %s did not reproduce" % sig)
        seq = None
        if nm.startswith("arr-"):
            seq = seqs[int(nm.split("-")[1])]
        vf.report(ctx, sig, "%s in %s: %s" % (sig, nm, json.dumps(e)[:400]), {"layer": "L1", "arrivals": seq, "event": e, "trace": nm})


def replay(ctx, path):
    q.replay(ctx, path)
