"""C11 - Pull, Worker and Admin APIs act only for authorized callers."""
import json
import os

import vf
from checks import apifam as fam

RULE = ("MC: PullAuth.tla decision table, every abstract row (configuration x endpoint x credential class x transport x "
        "operation, admin rows, compile rows) as a state, design invariants (override replaces global, never open, "
        "isolation, membership); GEN: the same rows printed by TLC; every row executed on the production wiring "
        "(real Parse/Compile, app.VerifBoot, HTTP handlers incl. prefix / shared mounting, real gRPC client) in several "
        "concretisations and path variants; TV: every call validated by TLC against the table (PullAuthTrace): "
        "decision, status, queue dump / idempotency cache / config file unchanged when refused. "
        "distinct_nontrivial = validated calls.")

INVARIANTS = ["TypeOK", "OverrideReplaces", "NeverOpen", "Isolation", "AllowNeedsMember", "MemberOpens", "Separate",
              "NearMiss", "CompileRule"]
TOOL = "hkv-pullauth"
MODULE = "PullAuthTrace"

ADMIN_EPS = ["healthz", "healthz_details", "dlq", "backlog_top_queued", "backlog_oldest_queued", "backlog_aging_summary",
             "backlog_trends", "messages", "attempts", "management_model", "applications", "app_endpoints", "app_endpoint",
             "app_messages", "publish", "dlq_requeue", "dlq_delete", "cancel", "requeue", "resume", "cancel_by_filter",
             "requeue_by_filter", "resume_by_filter", "scoped_publish", "scoped_cancel_by_filter", "scoped_requeue_by_filter",
             "scoped_resume_by_filter", "endpoint_put", "endpoint_delete", "unknown", "root"]


def signature(e, check):
    r = e.get("row", {})
    if e.get("ev") == "Compile":
        return "pullauth/%s/config/compile/%s" % (check, cfg_id(r.get("cfg", {})))
    tr = r.get("tr", "?") if r.get("s") == "pull" else "admin"
    op = r.get("op", "?") if r.get("s") == "pull" else e.get("adminep", "?")
    return "pullauth/%s/%s/%s/%s.%s" % (check, tr, op, r.get("form", "?"), r.get("whose", "?"))


def cfg_id(c):
    return "o%sg%da%d" % ("".join("1" if x else "0" for x in c.get("own", [])), int(bool(c.get("glob"))), int(bool(c.get("adm"))))


def one_arg(e):
    return json.dumps({"ev": e["ev"], "row": e["row"], "mount": e.get("mount", "bare"), "boot": e.get("boot", "direct"), "variant": e.get("variant", ""),
                       "conc": e.get("conc", 0), "adminep": e.get("adminep", ""), "method": e.get("method", "")})


def reexecute(ctx, e, seed):
    out = vf.tool(TOOL, ["-one", one_arg(e), "-seed", str(seed), "-scratch", ctx.shm], timeout=300)
    evs = [json.loads(x) for x in out.splitlines() if x.strip().startswith("{")]
    return evs


def describe(e, checks):
    r = e.get("row", {})
    if e.get("ev") == "Compile":
        return "configuration %s: compile accepted=%s booted=%s (%s)" % (cfg_id(r.get("cfg", {})), e.get("accepted"), e.get("booted"), e.get("err", "")[:200])
    return ("%s %s %s [%s/%s, mount %s, boot %s] with Authorization %s on configuration %s endpoint %d (credential %s/%s): status %s, "
            "items %s, queue %s, cache %s; failed check(s) %s" % (
                r.get("tr"), e.get("method"), e.get("path"), e.get("variant"), e.get("kind"), e.get("mount"), e.get("boot"), json.dumps(e.get("auth")),
                cfg_id(r.get("cfg", {})), r.get("ep", 0), r.get("form"), r.get("whose"), e.get("status"), e.get("nitems"),
                "changed %s" % e.get("delta") if e.get("pre") != e.get("post") else "unchanged",
                "changed" if e.get("rpre") != e.get("rpost") else "unchanged", sorted(checks)))


def triage(ctx, results, seed, max_report=10):
    fails = fam.collect_fails(results)
    by_sig = {}
    for (_f, _ln, chk, e) in fails:
        by_sig.setdefault(signature(e, chk), (e, chk))
    reported = 0
    flaky = []
    for sig, (e, chk) in sorted(by_sig.items()):
        if reported >= max_report:
            break
        evs = reexecute(ctx, e, seed)
        if not evs:
            raise vf.Infra("re-execution of %s produced no event" % sig)
        failed = fam.validate_events(ctx, evs, MODULE, "repro")
        hit = [(i, c) for i, cs in failed.items() for c in cs if c == chk]
        if not hit:
            flaky.append("divergence %s did not reproduce (first seen: %s)" % (sig, describe(e, {chk})))
            continue
        e2 = evs[hit[0][0]]
        if vf.report(ctx, sig, describe(e2, failed[hit[0][0]]), {"tool": TOOL, "seed": seed, "one": json.loads(one_arg(e2)), "check": chk, "event": e2}):
            reported += 1
    if flaky:
        ctx.notes += flaky
        if not ctx.violations:
            raise vf.Infra("; ".join(flaky[:3]))
    return len(by_sig)


def run(ctx):
    vf.build_tool(TOOL)
    rows, r = fam.mc_and_gen(ctx, "pullauth", "PullAuthGen", INVARIANTS, timeout=900)
    rows_file = os.path.join(ctx.scratch, "rows.ndjson")
    fam.write_rows(rows_file, rows)
    ctx.count("gen_rows", len(rows))
    for s in ("pull", "admin", "compile"):
        ctx.count("gen_rows_" + s, sum(1 for x in rows if x["s"] == s))
    if ctx.quick:
        waves = [dict(mounts="rotate", variants="rotate", concs="rotate", reload="rotate", admin=1, shards=16)]
    else:
        # every row in every wave; the full products are split over the waves (and rotate with the seed)
        waves = [dict(mounts="bare", variants="rotate", concs="all", reload="none", admin=4, shards=48),
                 dict(mounts="prefix", variants="all", concs="rotate", reload="none", admin=4, shards=64),
                 dict(mounts="shared", variants="all", concs="rotate", reload="none", admin=4, shards=64),
                 # every configuration once more, reached by a hot reload from a different configuration
                 dict(mounts="bare", variants="rotate", concs="rotate", reload="all", admin=4, shards=32)]
    counters = {}
    calls = 0
    for wi, w in enumerate(waves):
        out = os.path.join(ctx.shm, "trace-w%d" % wi)
        info = json.loads(vf.tool(TOOL, ["-rows", rows_file, "-out", out, "-shards", str(w["shards"]), "-seed", str(ctx.seed), "-scratch", ctx.shm, "-admin-offset", str(wi * 4),
                                         "-mounts", w["mounts"], "-variants", w["variants"], "-concs", w["concs"], "-reload", w["reload"], "-admin-cfgs", str(w["admin"]),
                                         "-workers", str(vf.NCPU)], timeout=2400).strip().splitlines()[-1])
        calls += info["calls"]
        for k, v in info["counters"].items():
            counters[k] = counters.get(k, 0) + v
        files = fam.shard_files(out, w["shards"])
        res = vf.tv_run(ctx, files, module=MODULE, name="tv-w%d" % wi, timeout=1800)
        ctx.cov["traces_validated_against_impl"] += info["calls"]
        ctx.cov["schedules_executed"] += info["calls"]
        if wi == 0:
            with open(files[0]) as f:
                for raw in f:
                    e = json.loads(raw)
                    if e["ev"] == "Call" and e["kind"] == "strict" and e["row"]["ep"] >= 1 and e["status"] in ("401", "Unauthenticated") and e["row"]["form"] in ("prefix", "casevar"):
                        ctx.sample({k: e[k] for k in ("row", "mount", "variant", "method", "path", "auth", "status", "pre", "post", "rpre", "rpost")})
                        break
        triage(ctx, res, ctx.seed)
        for f in files:
            os.unlink(f)
    ctx.count("calls", calls)
    # ---- non-vacuity
    missing = []
    want = set((x["tr"], x["op"], x["form"], x["whose"]) for x in rows if x["s"] == "pull")
    for (tr, op, form, whose) in sorted(want):
        if counters.get("pull.%s.%s.%s.%s" % (tr, op, form, whose), 0) == 0:
            missing.append("pull %s %s %s/%s" % (tr, op, form, whose))
    for tr in ("http", "grpc"):
        for op in ("dequeue", "dequeue_batch", "ack", "ack_batch", "nack", "nack_batch", "nack_dead", "extend"):
            for cls in ("unauth", "other"):
                if counters.get("pullcls.%s.%s.%s" % (tr, op, cls), 0) == 0:
                    missing.append("pull %s %s class %s" % (tr, op, cls))
            if counters.get("pull.changed.%s.%s" % (tr, op), 0) == 0:
                missing.append("pull %s %s never had an effect (authorized calls must act)" % (tr, op))
    for (form, whose) in sorted(set((x["form"], x["whose"]) for x in rows if x["s"] == "admin" and x["cfg"]["adm"])):
        if counters.get("admin.%s.%s" % (form, whose), 0) == 0:
            missing.append("admin %s/%s" % (form, whose))
    for ep in ADMIN_EPS:
        for cls in ("unauth", "other"):
            if counters.get("adminep.%s.%s" % (ep, cls), 0) == 0:
                missing.append("admin endpoint %s class %s" % (ep, cls))
    if counters.get("admin.changed", 0) == 0:
        missing.append("no admin call had an effect")
    if counters.get("compile.true", 0) == 0 or counters.get("compile.false", 0) == 0:
        missing.append("compile verdicts (accepted and rejected)")
    for m in ("bare", "prefix", "shared"):
        if counters.get("mount." + m, 0) == 0:
            missing.append("mount " + m)
    for b in ("direct", "reload"):
        for cls in ("unauth", "other"):
            if counters.get("boot.%s.%s" % (b, cls), 0) == 0:
                missing.append("boot %s class %s" % (b, cls))
    if missing:
        if not ctx.violations:
            raise vf.Infra("vacuous run, not exercised: " + "; ".join(missing[:20]))
        ctx.notes.append("not exercised (run has violations): " + "; ".join(missing[:20]))
    ctx.count("variants_served", sum(v for k, v in counters.items() if k.startswith("variant.") and ".plain." not in k and k.endswith(".other")))
    ctx.count("pull_unauth", sum(v for k, v in counters.items() if k.startswith("pullcls.") and k.endswith(".unauth")))
    ctx.count("pull_served_or_other", sum(v for k, v in counters.items() if k.startswith("pullcls.") and k.endswith(".other")))
    ctx.count("admin_unauth", counters.get("admincls.unauth", 0))
    ctx.count("admin_other", counters.get("admincls.other", 0))
    ctx.assumptions += [
        "memory backend (authorization happens before any store access; the store family covers the backends)",
        "queue state is compared as a digest of the complete side-effect-free dump (every field of every message); the lease "
        "idempotency cache is read by reflection and its capacity lowered to 128 entries to keep per-call dumps cheap",
        "with two Authorization values of which one is good, both outcomes are admitted (the statement leaves it open)",
        "non-canonical spellings of an endpoint (trailing slash, dot segments, blanks, missing prefix) are only required to be safe",
        "a method other than POST on a pull endpoint may be answered 405 before authentication (no operation is addressed)",
        "a request to an endpoint no route declares may be answered 404 / NotFound instead of 401 when it has no effect",
        "hot reload: half of the configurations (quick) / all of them once more (thorough) are reached by booting a different "
        "configuration and reloading; the unconfigured token is then one that was valid before the reload",
        "quick tier thins concretisations / path variants / mounts by rotation (seeded); thorough runs all of them"]
    vf.write_evidence(ctx, "model_checking", RULE, exhaustive=True)


def replay(ctx, path):
    obj = json.load(open(path))
    vf.build_tool(TOOL)
    evs = reexecute(ctx, obj["one"], obj.get("seed", 1))
    failed = fam.validate_events(ctx, evs, MODULE, "replay")
    if failed:
        for i, cs in failed.items():
            print(describe(evs[i], cs))
        i = sorted(failed)[0]
        vf.report(ctx, obj["sig"], "replayed: " + describe(evs[i], failed[i]), {k: obj[k] for k in ("tool", "seed", "one", "check")})
    else:
        print("replay: trace accepted (no divergence)")
