"""Shared machinery of the ingress decision properties (C10 route resolution / channel isolation, C08 authentication):
MC of the abstract tables (IngressMC, Spec), table generation by TLC (IngressMC, GenSpec), execution of every row on
the production ingress handler (harness tool hkv-ingress), trace validation by IngressTrace, triage."""
import concurrent.futures as cf
import json
import os
import re
import time

import vf

TOOL = "hkv-ingress"


class timed:
    """with timed(ctx, "step"): ... -> a line in ctx.notes"""
    def __init__(self, ctx, what):
        self.ctx, self.what = ctx, what

    def __enter__(self):
        self.t0 = time.time()

    def __exit__(self, *a):
        self.ctx.notes.append("%s: %.1fs" % (self.what, time.time() - self.t0))

RE_CFG = re.compile(r'^<<"CFG", "(.*)">>$')
MASK_ATTRS = ("path", "host", "ip", "hdr", "q", "body", "auth")


def _consts(fams, ashape, presence_full, lite=False):
    return {"Fams": set(fams), "AShape": list(ashape)}, {"PresenceFull": bool(presence_full), "Lite": bool(lite)}


def run_mc(ctx, name, fams, ashape=(0,), presence_full=False, timeout=900, lite=False):
    """Every row of the table as an initial state; design-level facts as invariants."""
    consts, plain = _consts(fams, ashape, presence_full, lite)
    r = vf.mc_run(ctx, "ing-" + name, "IngressMC", consts, plain, invariants=["RowFacts", "TableOK"], workers=4,
                  timeout=timeout, heap="6g")
    vf.mc_expect_ok(ctx, r, "IngressMC/" + name)
    return r


def run_gen(ctx, name, fams, ashape=(0,), presence_full=False, timeout=900, lite=False):
    """TLC prints every configuration with its complete set of abstract requests (inputs only)."""
    consts, plain = _consts(fams, ashape, presence_full, lite)
    r = vf.mc_run(ctx, "ing-gen-" + name, "IngressMC", consts, plain, invariants=["EmitConfig"], spec="GenSpec", workers=4,
                  timeout=timeout, heap="6g")
    if r["error"] or not r["ok"] or r["violated"]:
        raise vf.Infra("IngressMC GenSpec/%s failed: %s\n%s" % (name, r["error"] or r["violated"], "\n".join(r["out"].splitlines()[-30:])))
    lines = []
    for line in r["out"].splitlines():
        m = RE_CFG.match(line)
        if m:
            lines.append(json.loads(json.loads('"' + m.group(1) + '"')))
    if len(lines) != r["distinct"]:
        raise vf.Infra("IngressMC GenSpec/%s: %d configurations printed, %d states" % (name, len(lines), r["distinct"]))
    r["out"] = ""
    rows = sum(len(o["reqs"]) for o in lines)
    ctx.cov["mc_runs"].append({"name": "ing-gen-" + name, "distinct": r["distinct"], "generated": r["generated"], "configs": len(lines),
                               "rows": rows, "secs": r["secs"]})
    return lines, rows


def mc_and_gen(ctx, parts, lite=False):
    """parts: list of (name, fams, ashape, presence_full).  Runs MC and GEN of every part concurrently, checks that both
    enumerate the same number of rows, returns the merged table (configurations de-duplicated, canonical order)."""
    jobs = []
    with timed(ctx, "MC + GEN (%d TLC runs)" % (2 * len(parts))), cf.ThreadPoolExecutor(max_workers=max(2, min(8, vf.NCPU // 2))) as ex:
        for (name, fams, ashape, pf) in parts:
            jobs.append((name, "mc", ex.submit(run_mc, ctx, name, fams, ashape, pf, 1500, lite)))
            jobs.append((name, "gen", ex.submit(run_gen, ctx, name, fams, ashape, pf, 1500, lite)))
        res = {(n, k): f.result() for (n, k, f) in jobs}
    table = {}
    for (name, fams, ashape, pf) in parts:
        mc = res[(name, "mc")]
        lines, rows = res[(name, "gen")]
        if mc["distinct"] != rows:
            raise vf.Infra("table %s: MC enumerated %d rows, GEN printed %d" % (name, mc["distinct"], rows))
        ctx.count("table_rows_" + name, rows)
        for o in lines:
            key = json.dumps(o["cfg"], sort_keys=True)
            o["reqs"].sort(key=lambda q: json.dumps(q, sort_keys=True))
            table[key] = o
    return [table[k] for k in sorted(table)]


def write_table(path, table):
    with open(path, "w") as f:
        for o in table:
            f.write(json.dumps(o, separators=(",", ":")) + "\n")


def execute(ctx, table_path, tag, per, seed, shards=None, timeout=1500):
    out = os.path.join(ctx.shm, "trace-" + tag)
    args = ["run", "-table", table_path, "-out", out, "-shards", str(shards or vf.NCPU), "-per", str(per), "-seed", str(seed),
            "-scratch", ctx.shm]
    with timed(ctx, "execution on the real handler"):
        info = json.loads(vf.tool(TOOL, args, timeout=timeout).strip().splitlines()[-1])
    ctx.cov["schedules_executed"] += info["events"]
    ctx.cov["traces_validated_against_impl"] += info["configs"]
    ctx.count("configs_executed", info["configs"])
    ctx.count("rows_executed", info["rows"])
    ctx.count("requests_executed", info["events"])
    return info


def add_cov(total, c):
    for k, v in c.items():
        if isinstance(v, dict):
            d = total.setdefault(k, {})
            for kk, vv in v.items():
                d[kk] = d.get(kk, 0) + vv
        else:
            total[k] = total.get(k, 0) + v
    return total


def validate(ctx, files, tag, timeout=1500):
    """Trace validation of all files (parallel TLC processes); returns (results, summed coverage registers)."""
    with timed(ctx, "trace validation (%d files)" % len(files)):
        res = vf.tv_run(ctx, files, module="IngressTrace", name="tv-" + tag, timeout=timeout, heap="3g")
    # a TLC process that died before it read the trace (overloaded machine) is started once more
    for i, r in enumerate(res):
        if r["total"] > 0 and r["matched"] == 0 and not r["fails"]:
            ctx.notes.append("trace validation of %s restarted (first attempt: %s)" % (os.path.basename(r["file"]), r["error"] or "no progress"))
            res[i] = vf.tv_run(ctx, [r["file"]], module="IngressTrace", name="tv-%s-again%d" % (tag, i), timeout=timeout, heap="3g")[0]
    cov = {}
    for r in res:
        if r["error"]:
            raise vf.Infra("trace validation error in %s: %s\n%s" % (r["file"], r["error"], r.get("out_tail", "")))
        if r["matched"] < r["total"]:
            raise vf.Infra("trace %s not consumed: %d of %d\n%s" % (r["file"], r["matched"], r["total"], r.get("out_tail", "")))
        cp = r["file"] + ".cov"
        if not os.path.exists(cp):
            raise vf.Infra("no coverage record for " + r["file"])
        add_cov(cov, json.load(open(cp)))
    return res, cov


# ---------------------------------------------------------------- triage

def _load_lines(path):
    return open(path).read().splitlines()


def _event_and_cfg(lines, line):
    e = json.loads(lines[line - 1])
    j = line
    while j >= 1:
        c = json.loads(lines[j - 1])
        if c.get("ev") == "Cfg":
            return e, c
        j -= 1
    raise vf.Infra("no Cfg event before line %d" % line)


def _replay_items(e, isolate=True):
    """as sent, then (for isolation) the plain rendering, every varied attribute alone and every pair of them.  The
    spelling of the match criteria in the Hookaidofile ("spell": inline / through named matchers) is one of the attributes."""
    base = {"row": e["row"], "k": e["k"], "rseed": e["rseed"], "req": e["req"]}
    spell = e.get("spell", "")
    items = [dict(base, mask=e.get("mask", "*"), spell=spell)]
    labels = [None]
    if isolate and (e.get("mask", "*") != "" or spell):
        items.append(dict(base, mask="", spell=""))
        labels.append("plain")
        varied = [a for a in sorted(set(k.split("-")[0] for k in (e.get("conc", {}).get("var") or {}))) if a in MASK_ATTRS + ("spell",)]

        def item(attrs):
            return dict(base, mask=",".join(a for a in attrs if a != "spell"), spell=spell if "spell" in attrs else "")
        for a in varied:
            items.append(item([a]))
            labels.append(a)
        for i, a in enumerate(varied):
            for b in varied[i + 1:]:
                items.append(item([a, b]))
                labels.append(a + "," + b)
    return items, labels


def _run_replay(ctx, cfg_ev, items, tag):
    d = ctx.sub("replay-" + tag)
    rp = os.path.join(d, "in.json")
    out = os.path.join(ctx.shm, "replay-%s.ndjson" % tag)
    json.dump({"cfg": cfg_ev["cfg"], "ci": cfg_ev["ci"], "cseed": cfg_ev["cseed"], "items": items}, open(rp, "w"))
    vf.tool(TOOL, ["replay", "-in", rp, "-out", out, "-scratch", ctx.shm], timeout=300)
    rr = vf.tv_run(ctx, [out], module="IngressTrace", name="tv-replay-" + tag, timeout=300)[0]
    if rr["error"] or rr["matched"] < rr["total"]:
        raise vf.Infra("replay validation failed: %s\n%s" % (rr["error"], rr.get("out_tail", "")))
    events = [json.loads(x) for x in open(out)]
    by_line = {}
    for (line, ev, check) in rr["fails"]:
        by_line.setdefault(line, []).append(check)
    return events, by_line


def _variant_label(ev, attr):
    var = ev.get("conc", {}).get("var") or {}
    parts = ["%s:%s" % (k, v) for k, v in sorted(var.items()) if k.split("-")[0] == attr]
    return "+".join(parts) if parts else attr


def _triage_one(ctx, check, samples, tag):
    """Re-execute a failing input; returns dict(sig, text, replay) or None if no sample reproduces."""
    for n, (path, line) in enumerate(samples):
        e, c = _event_and_cfg(_load_lines(path), line)
        items, labels = _replay_items(e)
        events, by_line = _run_replay(ctx, c, items, "%s-%d" % (tag, n))
        # the replay trace has a Cfg line before every request: item i is event 2i+1 / line 2i+2
        req_ev = lambda i: events[2 * i + 1]
        failed = lambda i: check in by_line.get(2 * i + 2, [])
        if not failed(0):
            continue   # did not reproduce: try the next sample of this check
        sig = "ingress/" + check
        culprit = "as sent"
        if len(items) > 1:
            if failed(1):
                culprit = "plain rendering of the row"
            else:
                # smallest set of varied attributes (one, else two) whose variants alone reproduce the divergence
                hit = [(labels[i], req_ev(i)) for i in range(2, len(items)) if failed(i)]
                hit.sort(key=lambda x: (x[0].count(","), x[0]))
                if hit:
                    lab, ev = hit[0]
                    name = "+".join(_variant_label(ev, a) for a in lab.split(","))
                    sig += "/" + name
                    culprit = "variant " + name
                else:
                    var = e.get("conc", {}).get("var") or {}
                    sig += "/combo:" + "+".join("%s:%s" % kv for kv in sorted(var.items()) if kv[0] not in ("body",))
                    culprit = "only the combination of variants"
        obs = req_ev(0)["obs"]
        text = ("%s: %s %s Host=%s RemoteAddr=%s %s -> status %s, Allow %s, %d new message(s) %s [%s; configuration %s row %d]"
                % (check, e["conc"]["method"], e["conc"]["target"], e["conc"]["host"], e["conc"]["remote"],
                   ("(" + e["conc"]["note"] + ")") if e["conc"].get("note") else "", obs["status"], obs["allow"], len(obs["new"]),
                   json.dumps(obs["new"]), culprit, c["tr"], e["row"]))
        replay = {"layer": "L1-ingress", "check": check, "cfg": c["cfg"], "ci": c["ci"], "cseed": c["cseed"], "items": items[:1],
                  "hookaidofile": events[0].get("file", ""), "conc": e["conc"], "obs": obs, "abstract_request": e["req"]}
        return {"sig": sig, "text": text, "replay": replay}
    return None


def triage(ctx, results, max_samples=3, max_workers=6):
    """Turn FAIL lines into reproduced, named findings.  One finding per distinct check name (the check name already
    carries the class of the divergence); concretisation variants are isolated by re-execution."""
    fails = {}
    for r in results:
        for (line, ev, check) in r["fails"]:
            fails.setdefault(check, []).append((r["file"], line))
    if not fails:
        return 0
    for check, locs in fails.items():
        ctx.count("fail/" + check, len(locs))
    jobs = {}
    with timed(ctx, "triage (%d check names)" % len(fails)), cf.ThreadPoolExecutor(max_workers=max_workers) as ex:
        for i, (check, locs) in enumerate(sorted(fails.items())):
            # spread the samples over the failing events (first, middle, last)
            idx = sorted(set([0, len(locs) // 2, len(locs) - 1]))[:max_samples]
            jobs[check] = ex.submit(_triage_one, ctx, check, [locs[j] for j in idx], "t%d" % i)
        out = {check: f.result() for check, f in jobs.items()}
    reported = 0
    for check in sorted(out):
        t = out[check]
        if t is None:
            raise vf.Infra("divergence '%s' (%d events) did not reproduce on re-execution" % (check, len(fails[check])))
        if vf.report(ctx, t["sig"], t["text"], t["replay"]):
            reported += 1
    return reported


def replay(ctx, path):
    obj = json.load(open(path))
    vf.build_tool(TOOL)
    c = {"cfg": obj["cfg"], "ci": obj.get("ci", 0), "cseed": obj["cseed"], "tr": "replay"}
    events, by_line = _run_replay(ctx, c, obj["items"], "r")
    bad = False
    for i in range(len(obj["items"])):
        ev = events[2 * i + 1]
        checks = by_line.get(2 * i + 2, [])
        print("request %d: %s %s Host=%s RemoteAddr=%s%s -> status %s Allow %s new %s  failed checks: %s" % (
            i, ev["conc"]["method"], ev["conc"]["target"], ev["conc"]["host"], ev["conc"]["remote"],
            (" [criteria spelled '%s']" % ev["spell"]) if ev.get("spell") else "", ev["obs"]["status"],
            ev["obs"]["allow"], json.dumps(ev["obs"]["new"]), checks or "none"))
        bad = bad or bool(checks)
    if bad:
        vf.report(ctx, obj["sig"], "replayed: " + obj.get("text", ""), {k: obj[k] for k in ("layer", "check", "cfg", "ci", "cseed", "items") if k in obj})
    else:
        print("replay: trace accepted (no divergence)")


# ---------------------------------------------------------------- non-vacuity helpers

def require(ctx, cond, what):
    if not cond:
        raise vf.Infra("vacuous run: " + what)


def channel_positions(table):
    """(channel, position) pairs seen over configurations of >= 3 routes: first / middle / last."""
    seen = set()
    for o in table:
        n = len(o["cfg"])
        if n < 3:
            continue
        for i, rt in enumerate(o["cfg"]):
            pos = "first" if i == 0 else "last" if i == n - 1 else "middle"
            seen.add((rt["ch"], pos))
    return seen


def sample_events(files, want, limit=200000):
    """First event per predicate name in want (dict name -> predicate(event))."""
    got = {}
    n = 0
    for f in files:
        for line in open(f):
            n += 1
            if n > limit or len(got) == len(want):
                return got
            if '"ev":"Req"' not in line:
                continue
            e = json.loads(line)
            for name, pred in want.items():
                if name not in got and pred(e):
                    got[name] = {"concrete": e["conc"], "observed": e["obs"], "abstract": e["req"]}
    return got


def count_variants(files, needles):
    """How many trace lines carry each concretisation variant (plain text count of '"attr":"variant"')."""
    out = {n: 0 for n in needles}
    for f in files:
        data = open(f).read()
        for n in needles:
            out[n] += data.count('"%s":"%s"' % tuple(n.split(":", 1)))
    return out
