"""C09 - replay protection: a signed request is accepted at most once."""
import json
import os
import re

import vf

RULE = ("MC: Nonce.tla, the nonce cache design (inclusive expiry, cache kept across reloads), is model-checked for NonceOnce over all "
        "interleavings of requests, reloads and clock steps at ms resolution; GEN: NonceGen.tla - TLC enumerates (a) the window grid "
        "original / wait a / reload of every kind or none / wait b / replay | same-nonce-new-timestamp | concurrent burst, with a, b on "
        "the edges of the tolerance window (ts+tol-1ms, ts+tol, ts+tol+1ms, ...) and (b) all schedules up to a depth over originals, replays, "
        "same-nonce requests, other traffic, bursts, reloads and ticks; every schedule is executed on a production-wired in-process "
        "instance (app.VerifBoot: real Compile, loadAuth, reloadConfig / management mutation, ingress handler) with a fake clock injected "
        "into every HMAC authenticator; every request is validated by TLC (NonceTrace): a request the statement forces to be rejected "
        "must get 401 and add nothing to the queue; at most one of a concurrent burst is honoured. distinct_nontrivial = validated events.")

KINDS_ALL = ["noop", "unrelated", "hmac_changed", "header_changed", "route_removed_readded", "auth_removed_readded", "widen", "narrow", "mgmt"]
RE_SCHED = re.compile(r'^<<"SCHED", "(.*)">>$')


def gen(ctx, name, depth, kinds, ticks, grid, dts, maxsent, simulate=None):
    consts = {"ReloadKinds": set(kinds), "Ticks": set(ticks), "GridTicks": set(grid), "DtsSet": set(dts)}
    plain = {"Depth": depth, "MaxSent": maxsent}
    extra, workers = [], 4
    if simulate:
        extra, workers = ["-simulate", "num=%d" % simulate, "-depth", str(depth + 1), "-seed", str(ctx.seed)], 1
    r = vf.mc_run(ctx, "noncegen_" + name, "NonceGen", consts, plain, timeout=900, extra=extra, workers=workers)
    if r["error"]:
        raise vf.Infra("NonceGen failed: %s" % r["error"])
    scheds = set()
    for line in r["out"].splitlines():
        m = RE_SCHED.match(line)
        if m:
            ops = json.loads(json.loads('"' + m.group(1) + '"'))
            scheds.add(tuple(json.dumps(o, sort_keys=True) for o in ops))
    ordered = sorted(scheds)
    keep = [s for i, s in enumerate(ordered) if not (i + 1 < len(ordered) and ordered[i + 1][:len(s)] == s)]
    ctx.cov["states"] += r["distinct"]
    ctx.cov["transitions"] += r["generated"]
    ctx.cov["mc_runs"].append({"name": "noncegen_" + name, "distinct": r["distinct"], "generated": r["generated"], "schedules": len(keep), "secs": r["secs"]})
    return [[json.loads(o) for o in s] for s in keep]


def execute(ctx, scheds, tag):
    sf = os.path.join(ctx.scratch, "nonce-%s.ndjson" % tag)
    with open(sf, "w") as f:
        for i, ops in enumerate(scheds):
            f.write(json.dumps({"name": "%s-%05d" % (tag, i), "ops": ops}) + "\n")
    shards = vf.NCPU
    out = os.path.join(ctx.shm, "nonce-trace-" + tag)
    info = json.loads(vf.hkv(["l1-nonce", "-sched", sf, "-out", out, "-shards", str(shards), "-scratch", ctx.shm]).strip().splitlines()[-1])
    files = [f for f in ["%s.%d" % (out, i) for i in range(shards)] if os.path.exists(f) and os.path.getsize(f) > 0]
    res = vf.tv_run(ctx, files, module="NonceTrace", name="tv-" + tag)
    ctx.cov["traces_validated_against_impl"] += info["traces"]
    ctx.cov["schedules_executed"] += info["traces"]
    return res, sf


def find(sf, name):
    for line in open(sf):
        s = json.loads(line)
        if s["name"] == name:
            return s
    return None


def triage(ctx, res, sf):
    by_sig = {}
    stats = {"req": 0, "replays_rejected": 0, "replays_after_reload_rejected": 0, "accepted": 0, "bursts": 0, "reload_ok": 0, "reload_fail": 0}
    for r in res:
        if r["error"]:
            raise vf.Infra("NonceTrace error: %s\n%s" % (r["error"], r.get("out_tail", "")))
        events = vf.load_trace(r["file"])
        reloaded = False
        for e in events:
            if e["ev"] == "Reset":
                reloaded = False
            if e["ev"] == "Req":
                stats["req"] += 1
                stats["accepted"] += 1 if e["status"] == 202 else 0
                if e.get("kind") in ("replay", "samenonce") and e["status"] == 401:
                    stats["replays_rejected"] += 1
                    stats["replays_after_reload_rejected"] += 1 if reloaded else 0
            elif e["ev"] == "Burst":
                stats["bursts"] += 1
            elif e["ev"] == "Reload":
                stats["reload_ok" if e.get("ok") else "reload_fail"] += 1
                reloaded = reloaded or bool(e.get("ok"))
        fails = list(r["fails"])
        if r["matched"] < r["total"]:
            fails.append((r["matched"] + 1, events[r["matched"]].get("ev", "?"), "rejected"))
        for (line, ev, check) in fails:
            name, start = vf.trace_of_line(events, line)
            kinds = sorted({e.get("kind") for e in events[start - 1:line] if e.get("ev") == "Reload"})
            sig = "L1/nonce/%s/%s/reloads=%s" % (ev, check, "+".join(kinds) if kinds else "none")
            if sig not in by_sig or line - start < by_sig[sig][2]:
                by_sig[sig] = (name, events[line - 1], line - start)
    for k, v in stats.items():
        ctx.count(k, v)
    for sig, (name, e, _) in sorted(by_sig.items()):
        s = find(sf, name)
        # reproduce on a fresh run
        one = os.path.join(ctx.scratch, "nonce-repro.ndjson")
        open(one, "w").write(json.dumps(s) + "\n")
        out = os.path.join(ctx.shm, "nonce-repro-trace")
        vf.hkv(["l1-nonce", "-sched", one, "-out", out, "-scratch", ctx.shm])
        rr = vf.tv_run(ctx, [out], module="NonceTrace", name="tv-repro")[0]
        if rr["error"]:
            raise vf.Infra("reproduction errored: %s" % rr["error"])
        checks = {c for (_, _, c) in rr["fails"]}
        if sig.split("/")[3] not in checks and sig.split("/")[3] != "rejected":
            if "burst" in sig:
                # concurrent bursts are not deterministic: repeat a few times before giving up
                hit = False
                for _ in range(30):
                    vf.hkv(["l1-nonce", "-sched", one, "-out", out, "-scratch", ctx.shm])
                    rr = vf.tv_run(ctx, [out], module="NonceTrace", name="tv-repro")[0]
                    if sig.split("/")[3] in {c for (_, _, c) in rr["fails"]}:
                        hit = True
                        break
                if not hit:
                    raise vf.Infra("divergence %s did not reproduce" % sig)
            else:
                raise vf.Infra("divergence %s did not reproduce" % sig)
        text = "%s: %s at now=%s nonce=%s ts=%s tol=%s status=%s enq=%s (schedule %s)" % (
            sig, e.get("kind", e.get("ev")), e.get("now"), e.get("n"), e.get("ts"), e.get("tol"), e.get("status", e.get("accepted")), e.get("enq"), json.dumps(s["ops"]))
        vf.report(ctx, sig, text, {"layer": "L1", "schedule": s, "event": e})


def run(ctx):
    vf.build_hkv()
    # design-level MC of the cache model
    r = vf.mc_run(ctx, "nonce_design", "Nonce", {"Nonces": {"a", "b"}, "Steps": {1, 999, 1000, 2000}},
                  {"TolMs": 3000, "MaxNow": 17000 if ctx.quick else 19000, "ExpiryInclusive": True, "ReloadKeeps": True},
                  properties=["NonceOnce"], view="View", timeout=900)
    vf.mc_expect_ok(ctx, r, "Nonce design")
    grid = [1000, 2999, 3000, 3001] if ctx.quick else [1, 999, 1000, 1999, 2000, 2999, 3000, 3001, 4000, 5999, 6000, 6001]
    kinds = KINDS_ALL
    if ctx.quick:
        scheds = gen(ctx, "grid", 3, kinds, [3000], grid, [0], 1)
    else:
        # sized to ~300 schedules/s on 16 cores: every schedule of <= 4 operations plus the 15k-point window grid, then long random ones
        scheds = gen(ctx, "grid", 4, kinds, [1000, 2999, 3000, 3001], grid, [-1, 0, 1], 2)
        scheds += gen(ctx, "sim", 12, kinds, [1, 999, 1000, 1999, 2000, 2999, 3000, 3001], [], [-1, 0, 1], 2, simulate=3000)  # ~65k schedules (TLC emits ~22 per requested behaviour)
    if not scheds:
        raise vf.Infra("no schedules generated")
    ctx.count("schedules", len(scheds))
    ctx.sample({"kind": "TLC-generated replay schedule", "ops": scheds[len(scheds) // 3]})
    res, sf = execute(ctx, scheds, "nonce")
    triage(ctx, res, sf)
    c = ctx.cov["counters"]
    if c.get("req", 0) == 0 or c.get("accepted", 0) == 0 or c.get("bursts", 0) == 0 or c.get("reload_ok", 0) == 0 or c.get("replays_after_reload_rejected", 0) == 0:
        raise vf.Infra("vacuous run: %s" % c)
    ctx.assumptions += ["signatures are valid by construction (forgeries are C08); nonces are unique per schedule",
                        "a same-nonce request with ANOTHER timestamp that arrives after the first one's window closed is a new request (DESIGN.md C09)",
                        "--watch is the same reloadConfig path as SIGHUP; the file watcher itself is not exercised",
                        "concurrent bursts are 8 goroutines released together with a 96 KiB body (sampled interleavings)"]
    vf.write_evidence(ctx, "model_checking", RULE, exhaustive=False)


def replay(ctx, path):
    obj = json.load(open(path))
    vf.build_hkv()
    one = os.path.join(ctx.scratch, "nonce-replay.ndjson")
    open(one, "w").write(json.dumps(obj["schedule"]) + "\n")
    out = os.path.join(ctx.shm, "nonce-replay-trace")
    vf.hkv(["l1-nonce", "-sched", one, "-out", out, "-scratch", ctx.shm])
    rr = vf.tv_run(ctx, [out], module="NonceTrace", name="tv-replay")[0]
    for (line, ev, c) in rr["fails"]:
        print("step %d %s check '%s' failed" % (line - 1, ev, c))
    if rr["fails"]:
        vf.report(ctx, obj["sig"], "replayed: " + obj.get("text", ""), {"layer": "L1", "schedule": obj["schedule"]})
    else:
        print("replay: trace accepted")
