"""C03 - lease exclusivity: one live lease per message."""
import glob
import json
import os

import vf
from checks import queuefam as q

RULE = ("MC: QueueMC with LeaseExclusive (a message is leased anew only from queued or after its lease expired, fresh lease id, attempt + 1) "
        "and StoreOK (unique lease ids) over all interleavings of operations; sequential part: TLC-generated and seeded lease-heavy schedules "
        "on the real stores validated by QueueTrace (fresh lease, attempt+1, returned set subset of ready); concurrent part: free-running "
        "goroutines on the real memory and SQLite stores (L0) and HTTP pull workers + gRPC workers + ingress clients + two push-dispatcher "
        "workers on a production-wired instance (L1, app.VerifBoot) drive ONE store through a tracing decorator; every history of call/return "
        "events is checked by TLC for linearizability against Queue.tla (QueueLinTrace: some order of the operations between their call and "
        "return must explain every reported result and every dump at the quiescent barriers). distinct_nontrivial = validated events.")
PROPS = ["LeaseExclusive", "Conservation", "LeaseFence", "NotBefore"]


def conc(ctx, cmd, tag, n, extra):
    out = os.path.join(ctx.shm, tag)
    info = json.loads(vf.hkv([cmd, "-seed", str(ctx.seed), "-n", str(n), "-out", out, "-scratch", ctx.shm] + extra).strip().splitlines()[-1])
    files = sorted(glob.glob(out + ".*"))
    res = q.lin_run(ctx, files, name="lin-" + tag)
    ctx.cov["schedules_executed"] += info["traces"]
    ctx.count(tag + "_histories", info["traces"])
    ctx.count(tag + "_events", info["events"])
    ctx.count(tag + "_search_states", sum(r["states"] for r in res))
    q.lin_triage(ctx, res, "L0" if cmd == "l0-conc" else "L1")
    if files:
        ev = vf.load_trace(files[0])
        ctx.sample({"kind": "concurrent history %s (first lines)" % tag, "lines": ev[:6]})


def run(ctx):
    c = q.spec_cfg()
    vf.build_hkv()
    if ctx.quick:
        plan = {"mc": [("excl", c, PROPS, dict(family=("lease", "leasebatch", "deqvar", "operator"), horizon=20, maxep=2, maxins=2, ticks=(10, 30)))],
                "gen": [],
                "drv": [("lease", "lease", 120, 70, dict(churn_every=60))]}
        n0, n1, g, rounds = 10, 3, 4, 12
    else:
        # measured (8 workers, busy machine): 2 ids / all families / 3 epochs 111k distinct states in 56 s; 3 ids / one epoch with
        # lease+operator 403k in 92 s, with lease+leasebatch 254k in 100 s; 3 ids / 2 epochs / all families did not finish in 50 min
        all4 = ("lease", "leasebatch", "deqvar", "operator")
        plan = {"mc": [("excl", c, PROPS, dict(family=all4, horizon=30, maxep=3, maxins=2, ticks=(10, 30), timeout=1500)),
                       ("excl3_oper", c, PROPS, dict(ids=3, family=("lease", "operator"), horizon=20, maxep=1, maxins=3, ticks=(10, 30), timeout=1500)),
                       ("excl3_batch", c, PROPS, dict(ids=3, family=("lease", "leasebatch"), horizon=20, maxep=1, maxins=3, ticks=(10, 30), timeout=1500))],
                "gen": [("excl", c, dict(family=("lease", "operator", "restart"), horizon=20, maxep=2, maxins=2, pick="insertion"), 1)],
                "drv": [("lease", "lease", 3000, 90, {})]}
        n0, n1, g, rounds = 150, 40, 6, 16
    conc(ctx, "l0-conc", "l0conc", n0, ["-g", str(g), "-rounds", str(rounds), "-ops", "2"])
    conc(ctx, "l1-conc", "l1conc", n1, ["-rounds", str(rounds), "-clients", "4"])
    if ctx.cov["counters"].get("l0conc_histories", 0) == 0 or ctx.cov["counters"].get("l1conc_histories", 0) == 0:
        raise vf.Infra("vacuous: no concurrent history")
    q.run_plan(ctx, plan, RULE, assumptions=[
        "concurrent histories are sampled (free-running goroutines), not enumerated; the clock moves only at quiescent barriers",
        "by-filter operator mutations are not part of the concurrent alphabet (select-then-update in SQLite; C14 is sequential)",
        "long-poll waiting is disabled by the tracing decorator (MaxWait forced to 0)"])


def replay(ctx, path):
    obj = json.load(open(path))
    if "trace_file" in obj:
        r = q.lin_run(ctx, [obj["trace_file"]], name="lin-replay")[0]
        if r["accepted"]:
            print("replay: history accepted (linearizable)")
        else:
            print("replay: no linearization (matched %d of %d)" % (r["matched"], r["total"]))
            vf.report(ctx, obj["sig"], "replayed: " + obj.get("text", ""), {"trace_file": obj["trace_file"]})
    else:
        q.replay(ctx, path)
