"""C03 - lease exclusivity: one live lease per message."""
import glob
import json
import os

import vf
from checks import queuefam as q

RULE = ("MC: QueueMC with LeaseExclusive (a message is leased anew only from queued or after its lease expired, fresh lease id, attempt + 1) "
        "and StoreOK (unique lease ids) over all interleavings of operations; sequential part: TLC-generated and seeded lease-heavy schedules "
        "on the real stores validated by QueueTrace (fresh lease, attempt+1, returned set subset of ready); concurrent part: free-running "
        "goroutines on the real memory and SQLite stores (L0) and HTTP pull workers + gRPC workers + ingress clients + two push-dispatcher "
        "workers on a production-wired instance (L1, app.VerifBoot) drive ONE store through a tracing decorator; every history of call/return "
        "events is checked by TLC for linearizability against Queue.tla (QueueLinTrace: some order of the operations between their call and "
        "return must explain every reported result and every dump at the quiescent barriers). distinct_nontrivial = validated events.")
PROPS = ["LeaseExclusive", "Conservation", "LeaseFence", "NotBefore"]


def conc(ctx, cmd, tag, n, extra):
    out = os.path.join(ctx.shm, tag)
    info = json.loads(vf.hkv([cmd, "-seed", str(ctx.seed), "-n", str(n), "-out", out, "-scratch", ctx.shm] + extra).strip().splitlines()[-1])
    files = sorted(glob.glob(out + ".*"))
    res = q.lin_run(ctx, files, name="lin-" + tag)
    ctx.cov["schedules_executed"] += info["traces"]
    ctx.count(tag + "_histories", info["traces"])
    ctx.count(tag + "_events", info["events"])
    ctx.count(tag + "_search_states", sum(r["states"] for r in res))
    q.lin_triage(ctx, res, "L0" if cmd == "l0-conc" else "L1")
    if files:
        ev = vf.load_trace(files[0])
        ctx.sample({"kind": "concurrent history %s (first lines)" % tag, "lines": ev[:6]})


def run(ctx):
    c = q.spec_cfg()
    vf.build_hkv()
    if ctx.quick:
        plan = {"mc": [("excl", c, PROPS, dict(family=("lease", "leasebatch", "deqvar", "operator"), horizon=20, maxep=2, maxins=2, ticks=(10, 30)))],
                "gen": [],
                "drv": [("lease", "lease", 120, 70, dict(churn_every=60))]}
        n0, n1, g, rounds = 10, 3, 4, 12
    else:
        # measured (8 workers, busy machine): 2 ids / all families / 3 epochs 111k distinct states in 56 s; 3 ids / one epoch with
        # lease+operator 403k in 92 s, with lease+leasebatch 254k in 100 s; 3 ids / 2 epochs / all families did not finish in 50 min
        all4 = ("lease", "leasebatch", "deqvar", "operator")
        plan = {"mc": [("excl", c, PROPS, dict(family=all4, horizon=30, maxep=3, maxins=2, ticks=(10, 30), timeout=1500)),
                       ("excl3_oper", c, PROPS, dict(ids=3, family=("lease", "operator"), horizon=20, maxep=1, maxins=3, ticks=(10, 30), timeout=1500)),
                       ("excl3_batch", c, PROPS, dict(ids=3, family=("lease", "leasebatch"), horizon=20, maxep=1, maxins=3, ticks=(10, 30), timeout=1500))],
                "gen": [("excl", c, dict(family=("lease", "operator", "restart"), horizon=20, maxep=2, maxins=2, pick="insertion"), 1)],
                "drv": [("lease", "lease", 3000, 90, {})]}
        n0, n1, g, rounds = 150, 40, 6, 16
    conc(ctx, "l0-conc", "l0conc", n0, ["-g", str(g), "-rounds", str(rounds), "-ops", "2"])
    conc(ctx, "l1-conc", "l1conc", n1, ["-rounds", str(rounds), "-clients", "4"])
    if ctx.cov["counters"].get("l0conc_histories", 0) == 0 or ctx.cov["counters"].get("l1conc_histories", 0) == 0:
        raise vf.Infra("vacuous: no concurrent history")
    l2_part(ctx)
    q.run_plan(ctx, plan, RULE, assumptions=[
        "concurrent histories are sampled (free-running goroutines), not enumerated; the clock moves only at quiescent barriers",
        "by-filter operator mutations are not part of the concurrent alphabet (select-then-update in SQLite; C14 is sequential)",
        "long-poll waiting is disabled by the tracing decorator (MaxWait forced to 0)"])


# workloads of the restart part: messages are leased (and partly settled) when the process dies
HELD = [{"op": "ingress", "route": "pull"}, {"op": "ingress", "route": "pull"}, {"op": "publish", "route": "pull", "n": 3},
        {"op": "dequeue", "batch": 3}, {"op": "ack"}, {"op": "ingress", "route": "fan"}, {"op": "dequeue", "batch": 1}]


def l2_part(ctx):
    """A lease survives a restart: the REAL binary (SQLite on disk, push and pull routes, dispatcher active) is killed or left
    alone after a workload that leaves leases with the consumer, restarted at once on the same files, and polled while those
    leases certainly still run (lease 3 s, granted by an answered dequeue, not settled): none of their messages may be in the
    answer.  CrashTrace, check lease_survives_restart."""
    import random
    from checks import c01
    binp = vf.build_repo_binary(os.path.join(vf.BUILD, "hookaido-verif"))
    rnd = random.Random(ctx.seed)
    jobs = []
    for i, w in enumerate((c01.LONE, HELD)):
        jobs.append({"name": "lease-w%d-clean" % i, "ops": w, "crash": "", "kill_at_ms": 0, "hitlog": False, "early": True, "label": "clean"})
        for k in range(3 if ctx.quick else 40):
            jobs.append({"name": "lease-w%d-rand%d" % (i, k), "ops": w, "crash": "", "kill_at_ms": rnd.randint(30, 400), "hitlog": False, "early": True, "label": "random"})
    out, _, info = c01.run_jobs(ctx, binp, jobs, "lease", vf.NCPU)
    if info["errors"] > len(jobs) // 2:
        raise vf.Infra("restart runs could not be executed: %s" % info)
    r = vf.tv_run(ctx, [out], module="CrashTrace", name="tv-lease")[0]
    if r["error"]:
        raise vf.Infra("CrashTrace error: %s" % r["error"])
    events = vf.load_trace(r["file"])
    live = sum(e.get("live_held", 0) for e in events if e["ev"] == "Restart")
    ctx.count("restart_runs", len(jobs))
    ctx.count("leases_certainly_live_at_the_poll_after_restart", live)
    ctx.cov["traces_validated_against_impl"] += len(jobs) - info["errors"]
    ctx.cov["schedules_executed"] += len(jobs)
    if live == 0:
        ctx.notes.append("restart part: the restarts took longer than the 3 s leases (loaded machine): no lease was certainly live at the early poll")
    byname = {j["name"]: j for j in jobs}
    bad = sorted({vf.trace_of_line(events, line)[0] for (line, ev, check) in r["fails"] if check == "lease_survives_restart"})
    for nm in bad[:2]:
        job = byname[nm]
        hit = False
        for attempt in range(4):
            o, _, _ = c01.run_jobs(ctx, binp, [job], "lease-repro", 1)
            rr = vf.tv_run(ctx, [o], module="CrashTrace", name="tv-lease-repro")[0]
            if any(c == "lease_survives_restart" for (_, _, c) in rr["fails"]):
                hit = True
                break
        if not hit:
            raise vf.Infra("lease_survives_restart in %s did not reproduce in 4 attempts" % nm)
        ev = [e for e in events if e["ev"] == "Restart" and e.get("live_offered")][:1]
        vf.report(ctx, "L2/restart/lease_survives_restart/" + job["label"],
                  "after a restart of the real binary a message whose lease was still running was handed out again (run %s): %s" % (nm, json.dumps(ev)[:400]),
                  {"layer": "L2", "job": job})


def replay(ctx, path):
    obj = json.load(open(path))
    if obj.get("layer") == "L2":
        from checks import c01
        vf.build_hkv()
        binp = vf.build_repo_binary(os.path.join(vf.BUILD, "hookaido-verif"))
        for attempt in range(4):
            o, _, _ = c01.run_jobs(ctx, binp, [obj["job"]], "lease-replay", 1)
            rr = vf.tv_run(ctx, [o], module="CrashTrace", name="tv-lease-replay")[0]
            if any(c == "lease_survives_restart" for (_, _, c) in rr["fails"]):
                vf.report(ctx, obj["sig"], "replayed: " + obj.get("text", ""), {"layer": "L2", "job": obj["job"]})
                return
        print("replay: lease survived the restart in 4 attempts")
        return
    if "trace_file" in obj:
        r = q.lin_run(ctx, [obj["trace_file"]], name="lin-replay")[0]
        if r["accepted"]:
            print("replay: history accepted (linearizable)")
        else:
            print("replay: no linearization (matched %d of %d)" % (r["matched"], r["total"]))
            vf.report(ctx, obj["sig"], "replayed: " + obj.get("text", ""), {"trace_file": obj["trace_file"]})
    else:
        q.replay(ctx, path)
