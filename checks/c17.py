"""C17 - HMAC signing and secret rotation windows (outbound signing, inbound verification)."""
import concurrent.futures as cf
import json
import os

import vf
from checks import egsign as es
from checks import reloadfam

RULE = ("MC: SigningMC - TLC checks 12 design-level invariants of Signing.tla (selected version valid, newest / oldest extremal, tie by "
        "id, unique choice, exactly one of selected / nothing, boundary instants, unloadable secret => nothing sent, own signature "
        "accepted inbound, inbound exactness) on every row of the FULL table (<= 3 versions over ticks 0..6, both modes, every t); "
        "GEN: TLC prints the tier's table as JSON, inputs only; hkv-sign executes every row several times: outbound on the real "
        "HTTPDeliverer.Deliver (signing config from config.Parse + config.Compile of a generated Hookaidofile, env: secrets, injected "
        "clock, recording transport that parses the request in wire format) recomputing HMAC-SHA256 for every candidate secret, "
        "inbound through production wiring (app.VerifBoot, auth hmac secret_ref, fake clock); TV: SigningTrace requires signer = "
        "Select(row), timestamp = unix seconds of the clock, signature valid over the received body / path / method, and inbound "
        "accepted <=> signing version in ValidAt(versions, signed timestamp). Reloads: for every pair of configurations that differ in one "
        "signing setting (a version's valid_until / valid_from / value, the selection rule, header name, inline secret, signing removed) "
        "a delivery is observed at a local sink before and after the reload (production wiring with the real dispatcher); ReloadTrace "
        "requires the signing version in force afterwards to be the one of the configuration the instance claims to run (old when the "
        "reload is refused, new when applied). distinct_nontrivial = validated executions.")

INVARIANTS = ["TypeOK", "ExactlyOne", "SelectedIsValid", "NewestHasMaxFrom", "OldestHasMinFrom", "TieById", "SelectUnique",
              "OwnSignatureAccepted", "BoundaryFrom", "BoundaryUntil", "Unloadable", "InboundExact"]

FULL = {"MaxT": 6, "MaxV": 3, "MinV": 1, "UnMaxT": 3, "UnMaxV": 2, "InMaxT": 6, "InMaxV": 2}


def row_case(r):
    vs, t = r["vs"], r["t"]
    valid = [w for w in vs if w["from"] <= t < w["until"]]
    froms = [w["from"] for w in valid]
    return {"versions": len(vs), "valid": len(valid), "tie": int(len(froms) != len(set(froms))),
            "at_from": int(any(t == w["from"] for w in vs)), "at_until": int(any(t == w["until"] for w in vs))}


def signature(chk, e):
    """sign/<check>/<case>.  Grouped signatures: the case keeps the features that all failing executions of one check
    have in common (see egsign.group_by_signature)."""
    r, c = e["row"], e["conc"]
    if r["kind"] == "redir":
        return "sign/%s/redirects=on,%s" % (chk, "rewritten_to_get" if r["code"] in (301, 302, 303) else "method_preserved")
    if r["kind"] == "in":
        own = r["signer"] and r["vs"][r["signer"] - 1]
        rel = "outsider" if not own else ("at_from" if r["t"] == own["from"] else "at_until" if r["t"] == own["until"] else
                                          "inside" if own["from"] < r["t"] < own["until"] else "outside")
        return ("sign/%s/inbound" % chk, {"signer": rel, "clock_offset": r["off"], "versions": len(r["vs"])})
    feats = row_case(r)
    feats.update({"mode": r["mode"], "unloadable": int(r["un"] > 0), "via": c.get("via", "deliverer"), "path": c["path"], "body": c["body"],
                  "method": c["method"] or "default", "instant": "boundary" if c["sub"] == 0 else "inside", "listed_in_id_order": int(c["order"] == sorted(c["order"]))})
    return ("sign/%s/outbound" % chk, feats)


def describe(chk, e):
    r, c, o = e["row"], e["conc"], e["obs"]
    if r["kind"] == "redir":
        return ("%s: egress redirects on, target %s (sign hmac, %s) answers %d; requests sent: %s; signature header valid over the request "
                "that carries it: %s (the request following the redirect carries the first hop's signature and timestamp headers)" % (
                    chk, c["url"], r["mode"], c["code"], o["methods"].strip(), o["valid"]))
    win = ["%s=[%d,%s)" % (c["ids"][k], c["from_s"][k], c["until_s"][k] or "inf") for k in range(len(r["vs"]))]
    if r["kind"] == "in":
        return ("%s: inbound route with secret_ref windows %s (listed %s); request signed with %s at signed timestamp %d, verifier clock %d: "
                "status %d, %d message(s) stored" % (chk, win, c["order"], ("version " + c["ids"][r["signer"] - 1]) if r["signer"] else "an unconfigured secret",
                                                      c["now_s"], c["wall_s"], o["status"], o["delta"]))
    return ("%s: sign hmac secret_ref windows %s (listed %s), secret_selection %s, unset %s, clock %d.%09d, %s %s body %s(%d): sent=%s signer=%s "
            "timestamp header %r path %r method %r body_ok=%s err=%r" % (
                chk, win, c["order"], r["mode"], c["unset"], c["now_s"], c["now_ns"], c["method"] or "(default)", c["url"], c["body"], c["bodylen"],
                o["sent"], (c["ids"][o["signer"] - 1] if o["signer"] else "none of the configured secrets"), o["ts"], o["path"], o["method"], o["bodyok"], o["err"]))


def reexec(e, out):
    vf.tool("hkv-sign", ["one", "-row", json.dumps(e["row"], separators=(",", ":")), "-variant", str(e["conc"]["variant"]),
                         "-seed", str(e.get("seed", 1)), "-id", str(e.get("id", 0)), "-out", out, "-scratch", os.path.dirname(out),
                         "-via", e["conc"].get("via", "deliverer")], timeout=120)


def rank(e):
    r = e["row"]
    return (len(r["vs"]), e["conc"]["bodylen"], e["conc"]["variant"], e.get("id", 0))


def non_vacuity(ctx, c):
    keys = []
    for m in ("newest_valid", "oldest_valid"):
        keys += ["out/mode=%s/sent=true" % m, "out/mode=%s/sent=false" % m, "out/tie/mode=" + m, "out/choice/mode=" + m]   # both modes, with ties
    keys += ["out/tie/listed_out_of_id_order", "out/at_from/sent=true", "out/at_until/sent=false", "out/at_until/sent=true",  # every boundary instant
             "un/sent=true", "un/sent=false", "out/sub=0", "out/sub=1", "out/via=dispatcher/sent=true", "out/via=dispatcher/sent=false",
             "out/via=deliverer/sent=true", "out/via=deliverer/sent=false"]
    keys += ["out/rel=" + x for x in ("adjacent", "overlapping", "nested", "equal_from", "identical", "gap", "open_ended")]
    keys += ["out/body=" + x for x in ("json", "empty", "binary", "large", "text")]
    keys += ["out/method=" + x for x in ("", "POST", "PUT", "PATCH", "DELETE")]
    keys += ["out/path=" + x for x in ("/", "/hook", "/a%20b/c%2Fd", "/caf%C3%A9", "/a/../b/./c", "//double//slash", "/lower%2fslash%3a")]
    keys += ["out/versions=%d/signer=%d" % (n, k) for n in (1, 2, 3) for k in range(0, n + 1)]
    for off in (-1, 0, 1):
        keys += ["in/off=%d/status=202" % off, "in/off=%d/status=401" % off]
    keys += ["in/outsider/status=401", "in/at_from/signer_is_it=true/status=202", "in/at_until/signer_is_it=true/status=401",
             "in/at_from/signer_is_it=false/status=401", "in/at_until/signer_is_it=false/status=202", "kind/out", "kind/un", "kind/in"]
    keys += ["redir/code=%d/requests=2" % c for c in (301, 302, 303, 307, 308)]
    keys += ["out_earlier_deliveries_same_deliverer"]   # judged deliveries preceded by earlier ones of the same deliverer / configuration
    es.need(ctx, c, keys, "C17")


def run(ctx):
    vf.build_tool("hkv-sign")
    kinds = {"out", "un", "in", "redir"}
    if ctx.quick:
        # quick table: <= 3 versions over 0..4 and <= 2 versions over 0..6 outbound; unloadable <= 2 over 0..3; inbound <= 2 over 0..4
        # and single windows over 0..6
        gens = [("a", kinds, {"MaxT": 4, "MaxV": 3, "MinV": 1, "UnMaxT": 3, "UnMaxV": 2, "InMaxT": 4, "InMaxV": 2}),
                ("b", {"out", "in"}, {"MaxT": 6, "MaxV": 2, "MinV": 1, "UnMaxT": 3, "UnMaxV": 2, "InMaxT": 6, "InMaxV": 1})]
        per, timeout = 3, 300
        table = "quick table: outbound <= 3 versions over ticks 0..4 plus <= 2 versions over 0..6, unloadable-secret rows <= 2 versions over 0..3, " \
                "inbound <= 2 versions over 0..4 plus single windows over 0..6 (the full 0..6 x 3 table is model-checked in both tiers and executed in the thorough tier)"
    else:
        gens = [("a", kinds, {"MaxT": 6, "MaxV": 3, "MinV": 1, "UnMaxT": 4, "UnMaxV": 3, "InMaxT": 6, "InMaxV": 2}),
                ("b", {"in"}, {"MaxT": 6, "MaxV": 3, "MinV": 1, "UnMaxT": 3, "UnMaxV": 2, "InMaxT": 4, "InMaxV": 3})]
        per, timeout = 4, 1500
        table = "thorough table: outbound <= 3 versions over ticks 0..6, unloadable-secret rows <= 3 versions over 0..4, inbound <= 2 versions over 0..6 " \
                "plus <= 3 versions over 0..4"
    rows_file = os.path.join(ctx.scratch, "sign-rows.ndjson")
    raw_file = os.path.join(ctx.scratch, "sign-rows-raw.ndjson")
    with cf.ThreadPoolExecutor(max_workers=1) as ex:
        mc = ex.submit(es.mc_table, ctx, "signing", "SigningMC", {"Kinds": kinds}, FULL, INVARIANTS, timeout)
        for (nm, ks, plain) in gens:
            es.gen_rows(ctx, "signing-" + nm, "SigningMC", {"Kinds": ks}, plain, raw_file, timeout=timeout)
        # the tables overlap: every row once
        seen = set()
        with open(raw_file) as f, open(rows_file, "w") as o:
            for line in f:
                if line not in seen:
                    seen.add(line)
                    o.write(line)
        nrows = len(seen)
        ctx.count("abstract_rows", nrows)
        out = os.path.join(ctx.shm, "sign-trace")
        shards = es.WORKERS if ctx.quick else 4 * es.WORKERS
        info = json.loads(vf.tool("hkv-sign", ["run", "-rows", rows_file, "-out", out, "-shards", str(shards), "-per", str(per),
                                              "-seed", str(ctx.seed), "-scratch", ctx.shm], timeout=timeout).strip().splitlines()[-1])
        mc.result()
    if info["rows"] != nrows:
        raise vf.Infra("hkv-sign executed %d rows, TLC generated %d" % (info["rows"], nrows))
    for k, v in info["counters"].items():
        ctx.count(k, v)
    ctx.cov["schedules_executed"] += info["events"]
    ctx.cov["traces_validated_against_impl"] += info["events"]
    files = es.shard_files(out, shards)
    res = es.tv(ctx, files, "SigningTrace", "tv-sign", timeout=timeout)
    total = sum(r["total"] for r in res)
    if total != info["events"]:
        raise vf.Infra("trace files hold %d events, harness reported %d" % (total, info["events"]))
    es.triage(ctx, res, "SigningTrace", signature, reexec, describe, rank=rank)
    if sum(r["matched"] for r in res) != total:
        raise vf.Infra("trace validation did not consume every event")
    non_vacuity(ctx, info["counters"])
    reloadfam.frozen_part(ctx, "sign_")
    picked = set()
    with open(files[0]) as f:
        for line in f:
            e = json.loads(line)
            r = e["row"]
            kind = None
            if e["ev"] == "Out" and e["obs"]["sent"] and row_case(r)["tie"] and e["conc"]["order"][0] != 1:
                kind = "outbound: tie on valid_from, larger id listed first"
            elif e["ev"] == "Out" and not e["obs"]["sent"] and r["un"] and "env var" in e["obs"]["err"]:
                kind = "outbound: selected secret cannot be loaded"
            elif e["ev"] == "In" and e["obs"]["status"] == 401 and r["signer"] and r["t"] == r["vs"][r["signer"] - 1]["until"]:
                kind = "inbound: signed exactly at valid_until"
            if kind and kind not in picked:
                picked.add(kind)
                ctx.sample({"kind": kind, "text": describe("sample", e)})
            if len(picked) == 3:
                break
    ctx.assumptions += [
        "exhaustive refers to the abstract table the tier executes (" + table + "); bodies, paths, methods, ids, secret values, listing "
        "orders, clock zones and the position of the instant inside its tick are representatives cycled over the rows",
        "a tick is 100 s; a row's instant is concretised as the boundary instant itself, the last nanosecond before the next tick, and a "
        "seeded instant in between",
        "ids are compared as the configuration writes them (schemes whose lexicographic and numeric order agree)",
        "outbound: the signing configuration is copied field by field from config.Compile's result as app.buildDispatchRoutes does (that "
        "function is unexported); the target's view of the request is Request.Write parsed back by http.ReadRequest, no socket",
        "inbound: tolerance 5 m, fresh nonce per request, verifier clock at most one tick (100 s) away from the signed timestamp; "
        "replay / tolerance behaviour is C09's subject",
        "'the secret cannot be loaded' is an unset environment variable of an env: reference"]
    vf.write_evidence(ctx, "model_checking", RULE, exhaustive=True)


def replay(ctx, path):
    obj = json.load(open(path))
    if "frozen_job" in obj:
        return reloadfam.replay_frozen(ctx, obj)
    vf.build_tool("hkv-sign")
    es.replay(ctx, path, "SigningTrace", reexec, describe)
