"""C15 - Admin publish is validated and all-or-nothing."""
import json
import os
import random
import re

import vf
from checks import apifam as fam

RULE = ("(plus seeded random requests of 1..40 items with padding, judged by the same trace specification) "
        "MC: AdminPublish.tla, every batch of 1..MaxLen abstract items (MaxLen 3 quick / 4 thorough) in every frame (policy x path x "
        "scope x request-level class x padding x queue situation) as a state, all-or-nothing invariants; GEN: TLC prints the "
        "configuration tables and the selected batches (all pairs of kinds, every kind at every position, 1000 / 1001 items, "
        "near-full queues, batches of 251 .. 1000 items into queues with room for a part of them); every row executed through the production admin handlers (app.VerifBoot) on the memory and the "
        "SQLite backend; TV: every request validated by TLC (AdminPublishTrace): refused <=> offending item or request-level "
        "problem or queue full, refused => dump unchanged and the error names an admissible item with the status / code of its "
        "reason, accepted => exactly the batch was added in ingress shape. distinct_nontrivial = validated requests.")

INVARIANTS = ["TypeOK", "NothingStoredIfOffending", "StoredMeansAll", "IndexNamesOffender", "SingleOffender", "SameKindFirst",
              "FirstAlwaysAdmissible", "FillerAccepted", "StatusesAreRefusals", "Monotone"]
TOOL = "hkv-publish"
MODULE = "AdminPublishTrace"
RE_TABLE = re.compile(r'^<<"TABLE", "(.*)">>$')


def signature(e, check):
    fr = e.get("fr", {})
    items = e.get("items", [])
    fl = "ok_t" if (fr.get("path") == "scoped" and fr.get("scope") == "app1/ep2") else "ok"
    kinds = sorted(set(k for k in items if k != fl)) or [fl]
    tag = "+".join(kinds[:2])
    if fr.get("req", "ok") != "ok":
        tag = "req." + fr["req"]
    elif fr.get("lim", "none") != "none":
        tag = "%s.%s/%s" % (fr["lim"], fr["q"], tag)
    elif fr.get("pol", "P0") != "P0":
        tag = "%s/%s" % (fr["pol"], tag)
    return "publish/%s/%s" % (check, tag)


def one_arg(e):
    return json.dumps({"fr": e["fr"], "items": e["items"], "backend": e["backend"]})


def reexecute(ctx, table, e, seed):
    out = vf.tool(TOOL, ["-table", table, "-one", one_arg(e), "-seed", str(seed), "-scratch", ctx.shm], timeout=300)
    return [json.loads(x) for x in out.splitlines() if x.strip().startswith("{")]


def describe(e, checks):
    fr = e.get("fr", {})
    return ("%s publish on %s (policy %s, scope %s, request class %s, pad %d+%d, queue %s/%s) items %s: status %s code %r item_index %d "
            "published %d; dump %s (added %s, removed %s, changed %s); failed check(s) %s" % (
                fr.get("path"), e.get("backend"), fr.get("pol"), fr.get("scope"), fr.get("req"), fr.get("pad", 0), fr.get("tail", 0),
                fr.get("lim"), fr.get("q"), e.get("items"), e.get("status"), e.get("code"), e.get("index", -1), e.get("published", -1),
                "unchanged" if e.get("preh") == e.get("posth") else "CHANGED",
                [m["id"] for m in e.get("added", [])][:6], [m["id"] for m in e.get("removed", [])][:6], e.get("changed", [])[:6], sorted(checks)))


def triage(ctx, results, table, seed, max_report=10):
    fails = fam.collect_fails(results)
    by_sig = {}
    for (_f, _ln, chk, e) in fails:
        by_sig.setdefault(signature(e, chk), (e, chk))
    reported = 0
    flaky = []
    for sig, (e, chk) in sorted(by_sig.items()):
        if reported >= max_report:
            break
        evs = reexecute(ctx, table, e, seed)
        if not evs:
            raise vf.Infra("re-execution of %s produced no event" % sig)
        failed = fam.validate_events(ctx, evs, MODULE, "repro")
        if chk not in failed.get(0, set()):
            flaky.append("divergence %s did not reproduce (first seen: %s)" % (sig, describe(e, {chk})))
            continue
        e2 = dict(evs[0])
        e2["want"] = e2.get("want", [])[:8]
        e2["added"] = e2.get("added", [])[:8]
        if vf.report(ctx, sig, describe(evs[0], failed[0]), {"tool": TOOL, "seed": seed, "one": json.loads(one_arg(evs[0])), "check": chk,
                                                             "table": json.load(open(table)), "event": e2}):
            reported += 1
    if flaky:
        ctx.notes += flaky
        if not ctx.violations:
            raise vf.Infra("; ".join(flaky[:3]))


def random_rows(seed, table, n):
    """Seeded random requests beyond the TLC-enumerated bound: 1..40 items (plus random padding), up to three offending kinds at
    random positions, random policy / path / request class / queue situation.  Inputs only; AdminPublishTrace judges them."""
    rng = random.Random(seed * 7919 + 15)
    pols = sorted(table["policies"])
    reqs = sorted(table["reqs"])
    out = []
    for _ in range(n):
        path, scope = rng.choice([("global", "-"), ("scoped", "app1/ep1"), ("scoped", "app1/ep2")])
        kinds = sorted(table["gkinds"] if path == "global" else table["skinds"])
        fl = "ok_t" if scope == "app1/ep2" else "ok"
        fr = {"pol": rng.choice(pols) if rng.random() < 0.4 else "P0", "path": path, "scope": scope,
              "req": rng.choice(reqs) if rng.random() < 0.1 else "ok", "pad": 0, "tail": 0, "lim": "none", "q": "base", "sel": "rand", "maxlen": 40, "depth": 0, "room": 0}
        r = rng.random()
        if r < 0.15:
            fr["pad"], fr["tail"] = rng.randint(0, 60), rng.randint(0, 60)
        elif r < 0.2:
            fr["pad"], fr["tail"] = rng.randint(0, 300), rng.randint(0, 300)
        length = rng.choice([1, 2, 3, 5, 8, 13, 21, 40]) if rng.random() < 0.5 else rng.randint(1, 40)
        if rng.random() < 0.12:
            fr["lim"], fr["q"] = rng.choice(["reject", "drop_oldest"]), rng.choice(["near_full", "near_full_leased"])
            fr["depth"], fr["room"] = 8, 1
            fr["pad"] = fr["tail"] = 0
            length = rng.randint(1, 5)
        items = [fl] * length
        for pos in rng.sample(range(length), min(length, rng.choice([0, 1, 1, 1, 2, 2, 3]))):
            items[pos] = rng.choice(kinds)
        out.append({"fr": fr, "items": items})
    return out


def run(ctx):
    vf.build_tool(TOOL)
    maxlen = 3 if ctx.quick else 4
    rows, r = fam.mc_and_gen(ctx, "publish", "AdminPublishGen", INVARIANTS, plain={"MaxLen": maxlen}, timeout=2400)
    table = None
    for line in r["out"].splitlines():
        m = RE_TABLE.match(line.strip())
        if m:
            table = json.loads(json.loads('"' + m.group(1) + '"'))
    if table is None:
        raise vf.Infra("AdminPublishGen printed no TABLE")
    table_file = os.path.join(ctx.scratch, "table.json")
    json.dump(table, open(table_file, "w"))
    rows_file = os.path.join(ctx.scratch, "rows.ndjson")
    ctx.count("gen_rows", len(rows))
    rnd = random_rows(ctx.seed, table, 400 if ctx.quick else 6000)
    ctx.count("random_rows", len(rnd))
    rows = rows + rnd
    fam.write_rows(rows_file, rows)
    for s in ("full", "light", "req", "pad", "queue", "bigq", "rand"):
        ctx.count("gen_rows_" + s, sum(1 for x in rows if x["fr"]["sel"] == s))
    shards = 16 if ctx.quick else 48
    out = os.path.join(ctx.shm, "trace-pub")
    info = json.loads(vf.tool(TOOL, ["-table", table_file, "-rows", rows_file, "-out", out, "-shards", str(shards), "-seed", str(ctx.seed),
                                     "-scratch", ctx.shm, "-backends", "memory,sqlite", "-sqlite-sample", "3" if ctx.quick else "1",
                                     "-workers", str(vf.NCPU)], timeout=2400).strip().splitlines()[-1])
    files = fam.shard_files(out, shards)
    res = vf.tv_run(ctx, files, module=MODULE, name="tv-pub", timeout=2400, heap="4g")
    ctx.cov["traces_validated_against_impl"] += info["requests"]
    ctx.cov["schedules_executed"] += info["requests"]
    ctx.count("requests", info["requests"])
    c = info["counters"]
    # a sample: an accepted and a refused multi-item request
    got = set()
    with open(files[0]) as f:
        for raw in f:
            e = json.loads(raw)
            key = "accepted" if e["status"] == "200" else "refused"
            if key in got or len(e["items"]) < 2 or e["fr"]["pad"] + e["fr"]["tail"] > 0:
                continue
            got.add(key)
            ctx.sample({k: e[k] for k in ("fr", "items", "backend", "status", "code", "index", "published", "preh", "posth", "added", "removed")})
            if len(got) == 2:
                break
    triage(ctx, res, table_file, ctx.seed)
    # ---- non-vacuity
    missing = []
    for be in ("memory", "sqlite"):
        for acc in ("accepted", "refused"):
            if c.get("backend.%s.%s" % (be, acc), 0) == 0:
                missing.append("backend %s %s" % (be, acc))
        if c.get("evicted." + be, 0) == 0:
            missing.append("drop_oldest eviction on " + be)
    kinds = set()
    for x in rows:
        for k in x["items"]:
            kinds.add((x["fr"]["path"], k))
    for (path, k) in sorted(kinds):
        for pos in ("first", "middle", "last", "only"):
            if c.get("kind.%s.%s.%s" % (path, k, pos), 0) == 0:
                missing.append("kind %s/%s at position %s" % (path, k, pos))
    for p in table["policies"]:
        if c.get("pol.%s.refused" % p, 0) == 0:
            missing.append("policy %s refused" % p)
    for rq in ("no_reason", "long_reason", "no_actor", "no_reqid", "actor_bad", "actor_prefixed", "bad_json", "no_items", "unknown_field",
               "trailing_doc", "huge_body"):
        if c.get("req.%s.refused" % rq, 0) == 0:
            missing.append("request class " + rq)
    for lim in ("reject", "drop_oldest"):
        for q in ("near_full", "near_full_leased"):
            for acc in ("accepted", "refused"):
                if c.get("lim.%s.%s.%s" % (lim, q, acc), 0) == 0:
                    missing.append("queue %s/%s %s" % (lim, q, acc))
    for be in ("memory", "sqlite"):
        for path in ("global", "scoped"):
            if c.get("bigfull.%s.%s" % (be, path), 0) == 0:
                missing.append("batch of more than 250 items refused for queue full on %s/%s" % (be, path))
            for lim in ("reject", "drop_oldest"):
                if c.get("bigq.%s.%s.%s.refused" % (be, path, lim), 0) == 0:
                    missing.append("large batch into a near-full %s queue on %s/%s" % (lim, be, path))
    if c.get("sel.bigq.accepted", 0) == 0:
        missing.append("large batch that fits a near-full queue")
    if c.get("code.queue_full", 0) == 0:
        missing.append("queue_full refusal")
    if c.get("pad.1000.accepted", 0) == 0 or c.get("pad.1001.refused", 0) == 0 or c.get("pad.1000.refused", 0) == 0:
        missing.append("1000 / 1001 item batches")
    for acc in ("accepted", "refused"):
        if c.get("sel.rand." + acc, 0) == 0:
            missing.append("random requests " + acc)
    if c.get("indexed", 0) == 0:
        missing.append("no error named an item")
    if missing:
        if not ctx.violations:
            raise vf.Infra("vacuous run, not exercised: " + "; ".join(missing[:20]))
        ctx.notes.append("not exercised (run has violations): " + "; ".join(missing[:20]))
    for k in ("backend.memory.accepted", "backend.memory.refused", "backend.sqlite.accepted", "backend.sqlite.refused", "indexed",
              "code.queue_full", "evicted.memory", "evicted.sqlite", "pad.1000.accepted", "pad.1001.refused", "sel.rand.accepted", "sel.rand.refused", "sel.bigq.accepted", "sel.bigq.refused",
              "bigfull.memory.global", "bigfull.memory.scoped", "bigfull.sqlite.global", "bigfull.sqlite.scoped"):
        ctx.count(k, c.get(k, 0))
    ctx.assumptions += [
        "memory and SQLite backends (no PostgreSQL server in the sandbox); no dispatcher runs, so messages published to deliver routes stay queued",
        "payloads, header maps and trace maps are compared as digests; the dump difference (added / removed / changed) is computed by the harness from complete side-effect-free dumps",
        "'first offending item' is read per DESIGN.md C15: the reported index names an offending item and is the first for its reason; "
        "the globally smallest index across reasons is not demanded",
        "statuses are taken from docs/admin-api.md; where docs and the handlers' table differ (actor not allowed 403/400, queue full 429/503, "
        "in-batch duplicate 409/400) both are admitted",
        "under drop_oldest an accepted batch may evict exactly the oldest queued messages needed to make room (C12's rule)",
        "quick tier: batches up to 3 abstract items, SQLite runs every third row of the exhaustive frames; thorough: up to 4, everything on both backends"]
    vf.write_evidence(ctx, "model_checking", RULE, exhaustive=True)


def replay(ctx, path):
    obj = json.load(open(path))
    vf.build_tool(TOOL)
    table_file = os.path.join(ctx.scratch, "table.json")
    json.dump(obj["table"], open(table_file, "w"))
    evs = reexecute(ctx, table_file, obj["one"], obj.get("seed", 1))
    failed = fam.validate_events(ctx, evs, MODULE, "replay")
    if failed:
        print(describe(evs[0], failed.get(0, set())))
        vf.report(ctx, obj["sig"], "replayed: " + describe(evs[0], failed.get(0, set())), {k: obj[k] for k in ("tool", "seed", "one", "check", "table")})
    else:
        print("replay: trace accepted (no divergence)")
