"""C08 - ingress authentication is sound and fails closed."""
import json
import os

import vf
from checks import ingressfam as ing

RULE = ("MC: every row of the auth-material tables of IngressMC (P basic, H HMAC, F forward auth, X two routes with different auth kinds "
        "and the material of either) is an initial state and satisfies "
        "the design-level facts of Ingress.tla (accepted => authentic: configured user with exactly its password / all three "
        "headers, timestamp within tolerance, signature under a secret valid at the signed timestamp / auth service 2xx; every "
        "other row 401, 403 or 503 with zero enqueued). GEN: TLC prints every configuration (header names, tolerance, static "
        "secrets and secret_ref windows, users, forward-auth endpoint / timeout) with its complete set of abstract requests; each "
        "is compiled by the real config package, booted through app.VerifBoot on a fake clock, and every row is sent as concrete "
        "requests (the HMAC is computed by the harness from the statement's string-to-sign; altered variants are single-bit flips "
        "of body, path, method, timestamp, signature; the auth service is a scripted local server incl. hang, reset, closed port, "
        "redirects) with a queue dump before and after. TV: IngressTrace requires status and enqueued messages = Outcome(cfg, req). "
        "exhaustive=true refers to the abstract tables; concrete strings are representatives. evaluations = concrete requests executed "
        "and validated; distinct_nontrivial = distinct abstract rows.")


def _delta_class(cfg, c):
    tol = max(rt["auth"]["tol"] for rt in cfg) * 1000
    d = c["now"] - c["ts"] * 1000
    if c["tsf"] != "int":
        return "unparsable"
    return "<-tol" if d < -tol else "=-tol" if d == -tol else "inside" if d < tol else "=+tol" if d == tol else ">+tol"


def row_classes(table):
    """Input classes of the rows (from the abstract fields only)."""
    seen = {"basic": set(), "hmac_pres": set(), "hmac_delta": set(), "hmac_sig": set(), "hmac_key": set(), "forward": set(),
            "hmac_versions": set(), "hmac_names": set()}
    for o in table:
        a = o["cfg"][0]["auth"]
        if a["k"] == "hmac":
            seen["hmac_versions"].add(len(a["vs"]))
            seen["hmac_names"].add(a["names"])
        for q in o["reqs"]:
            c = q["cred"]
            if c["k"] == "basic":
                seen["basic"].add(c["wf"] if c["wf"] != "ok" else "ok/" + c["pwrel"] + ("/unknown" if c["user"] == "ux" else ""))
            elif c["k"] == "hmac":
                seen["hmac_pres"].add((c["ps"], c["pt"], c["pn"]))
                seen["hmac_delta"].add(_delta_class(o["cfg"], c))
                seen["hmac_sig"].add(c["sigc"])
                seen["hmac_key"].add("unconf" if c["key"] == "unconf" else "static" if c["key"].startswith("s") else "version")
            elif c["k"] == "forward":
                seen["forward"].add(c["fk"] if c["fk"] != "status" else str(c["code"])[0] + "xx" if c["code"] not in (401, 403) else str(c["code"]))
    return seen


def run(ctx):
    vf.build_tool(ing.TOOL)
    full = not ctx.quick
    per = 2 if ctx.quick else 5
    table = ing.mc_and_gen(ctx, [("P", ["P"], (0,), False), ("H", ["H"], (0,), full), ("F", ["F"], (0,), False), ("X", ["X"], (0,), False)])
    tp = os.path.join(ctx.scratch, "table-c08.ndjson")
    ing.write_table(tp, table)
    nrows = sum(len(o["reqs"]) for o in table)
    ctx.count("table_configs", len(table))
    ctx.count("table_rows", nrows)
    # thorough: a second concretisation of every configuration (other header names, secrets, passwords, paths)
    seeds = [ctx.seed] if ctx.quick else [ctx.seed, ctx.seed + 1000]
    res, files, cov, nevents, hits = [], [], {}, 0, 0
    for i, sd in enumerate(seeds):
        info = ing.execute(ctx, tp, "c08-%d" % i, per, sd, shards=min(vf.NCPU, len(table)))
        if info["configs"] != len(table) or info["rows"] != nrows or info["events"] != nrows * per:
            raise vf.Infra("executed %s, table has %d configurations / %d rows x %d" % (info, len(table), nrows, per))
        r, c = ing.validate(ctx, info["files"], "c08-%d" % i)
        ing.add_cov(cov, c)
        res += r
        files += info["files"]
        nevents += info["events"]
        hits += info["fwd_hits"]
    ing.require(ctx, hits > 0, "the scripted auth service was never called")
    ctx.cov["counters"]["coverage"] = cov

    # ---- non-vacuity: every class of the statement's table was executed (all rows are; the classes must be in the table)
    seen = row_classes(table)
    ctx.cov["counters"]["row_classes"] = {k: sorted(map(str, v)) for k, v in seen.items()}
    need = {
        "basic": {"absent", "scheme", "badb64", "nocolon", "ok/eq", "ok/eq/unknown", "ok/shorter", "ok/longer", "ok/samelen", "ok/empty"},
        "hmac_delta": {"unparsable", "<-tol", "=-tol", "inside", "=+tol", ">+tol"},
        "hmac_sig": {"ok", "alt_body", "alt_path", "alt_method", "alt_ts", "alt_sig", "nothex", "trunc", "ext"},
        "hmac_key": {"unconf", "static", "version"},
        "forward": {"2xx", "401", "403", "3xx", "4xx", "5xx", "timeout", "refused", "reset"},
        "hmac_versions": {0, 1, 2, 3},
        "hmac_names": {"default", "custom"},
    }
    for k, want in need.items():
        ing.require(ctx, want <= seen[k], "auth row classes missing in %s: %s" % (k, sorted(map(str, want - seen[k]))))
    ing.require(ctx, len(seen["hmac_pres"]) == 27, "header presence combinations: %d of 27" % len(seen["hmac_pres"]))

    ing.triage(ctx, res)

    # accepted / rejected are counted on events that agree with the table, so they are required once nothing was reported
    if not ctx.violations and not ctx.known:
        for kind in ("basic", "hmac", "forward"):
            ing.require(ctx, cov["acc"][kind] > 0, "no accepted request with %s auth" % kind)
            ing.require(ctx, cov["rej"][kind] > 0, "no rejected request with %s auth" % kind)

    got = ing.sample_events(files, {
        "hmac accepted": lambda e: e["req"]["cred"]["k"] == "hmac" and 200 <= e["obs"]["status"] < 300 and e["k"] > 0,
        "hmac rejected (configured secret not valid at the signed timestamp)":
            lambda e: e["req"]["cred"]["k"] == "hmac" and e["obs"]["status"] == 401 and e["req"]["cred"]["sigc"] == "ok"
            and e["req"]["cred"]["key"].startswith("k") and e["req"]["cred"]["ps"] == e["req"]["cred"]["pt"] == e["req"]["cred"]["pn"] == "present"
            and e["req"]["cred"]["tsf"] == "int" and e["req"]["cred"]["now"] == e["req"]["cred"]["ts"] * 1000,
        "forward 503": lambda e: e["req"]["cred"]["k"] == "forward" and e["obs"]["status"] == 503,
        "basic rejected": lambda e: e["req"]["cred"]["k"] == "basic" and e["obs"]["status"] == 401 and e["req"]["cred"]["pwrel"] == "samelen"})
    for k in sorted(got):
        ctx.sample({"kind": k, **got[k]})
    ctx.assumptions += [
        "exhaustive over the abstract tables of IngressMC (constants in mc_runs); the concrete requests are %d seeded representatives per row" % (per * len(seeds)),
        "quick tier: header-presence combinations other than all-present are crossed with clock offset 0 only (thorough: with every offset)",
        "memory queue backend; in-process production handler (app.VerifBoot); HMAC clock = VerifOptions.Now",
        "tolerance edges are inclusive (|now - ts| <= tolerance is 'within the tolerance'); sub-second clock offsets are used",
        "every request carries a fresh nonce (replay is C09); the nonce cache is not part of the compared state",
        "classes whose reading is open are not emitted: upper-case hex signatures, blanks around header values, '+'-prefixed timestamps",
        "a password written as a secret reference (auth basic \"u\" \"env:VAR\", as in docs/ingress.md and docs/security.md) means the referenced value",
        "the accepted status is any 2xx (the statement does not fix it)"]
    vf.write_evidence(ctx, "model_checking", RULE, extra={"evaluations": nevents, "distinct_nontrivial": nrows}, exhaustive=True)


def replay(ctx, path):
    ing.replay(ctx, path)
