"""C01 - an acknowledged message is durable: no loss after 202/200."""
import json
import os
import random
import re

import vf

RULE = ("GEN: TLC (CrashGen.tla) generates client workloads (ingress to a pull route and to a 3-target fan-out route, admin publish batches, "
        "pull dequeue / ack / nack / dead-letter); each workload is first run cleanly against the REAL `hookaido run` binary (built from "
        "/repo with -tags verif, SQLite on disk, loopback listeners, push dispatcher active) to count the hits of every hook label, then once "
        "per (label, n): the process kills itself with SIGKILL at the n-th hit (inside and between store transactions, between the per-target "
        "enqueues of a fan-out, before the ingress / publish response, around lease mutations, inside schema migration), plus external "
        "SIGKILLs at random instants, and a family of runs in which the store checkpoints its WAL every millisecond (verif-only override of the "
        "one-minute interval) killed at the n-th checkpoint's start, right after it and at random instants. The pull workloads include the "
        "batch forms (lease_ids) of ack / nack / dead-letter; the configuration has queue_retention with a prune interval the backlog outlives "
        "before the restart. After each kill the database is opened with the store's own open path (integrity_check, counters, raw "
        "table), the binary is restarted on the same files and asked for everything it offers once the leases ran out. TV: CrashTrace.tla "
        "checks every run: acknowledged messages present exactly once and well formed, acknowledged ack / nack / dead-letter not undone, "
        "unacknowledged requests all-or-prefix (fan-out) / all-or-nothing (publish), nothing nobody sent, queue opens, restart succeeds, "
        "unsettled pull messages offered again, settled ones never. distinct_nontrivial = validated events.")

# the only unsettled message is leased when the process dies (a quiet queue afterwards)
LONE = [{"op": "ingress", "route": "pull"}, {"op": "dequeue", "batch": 1}]
# the queue is one short of queue_limits.max_depth (14, reject) when a three-item publish arrives: it must be refused as a whole
FULL = [{"op": "ingress", "route": "pull"}] * 13 + [{"op": "publish", "route": "pull", "n": 3}, {"op": "dequeue", "batch": 2}, {"op": "ack_batch"},
                                                    {"op": "publish", "route": "pull", "n": 3}]
RE_WORK = re.compile(r'^<<"WORK", "(.*)">>$')
CANON = [{"op": "ingress", "route": "pull"}, {"op": "ingress", "route": "fan"}, {"op": "publish", "route": "pull", "n": 3}, {"op": "dequeue", "batch": 2},
         {"op": "ack"}, {"op": "nack"}, {"op": "publish", "route": "fan", "n": 3}, {"op": "dequeue", "batch": 2}, {"op": "dead"}, {"op": "ingress", "route": "fan"},
         {"op": "publish", "route": "pull", "n": 3}, {"op": "dequeue", "batch": 2}, {"op": "dead_batch"}, {"op": "dequeue", "batch": 2}, {"op": "ack_batch"}]


def workloads(ctx, n, depth):
    r = vf.mc_run(ctx, "crashgen", "CrashGen", {}, {"Depth": depth, "MinLen": depth}, timeout=300, workers=1,
                  extra=["-simulate", "num=%d" % (n * 3), "-depth", str(depth + 1), "-seed", str(ctx.seed)])
    if r["error"]:
        raise vf.Infra("CrashGen failed: %s" % r["error"])
    out = []
    seen = set()
    for line in r["out"].splitlines():
        m = RE_WORK.match(line)
        if m:
            s = json.loads('"' + m.group(1) + '"')
            if s not in seen:
                seen.add(s)
                out.append(json.loads(s))
    ctx.cov["states"] += max(r["distinct"], len(out))
    ctx.cov["transitions"] += max(r["generated"], len(out))
    return out[:n]


def run_jobs(ctx, binp, jobs, tag, par):
    jf = os.path.join(ctx.scratch, "crash-jobs-%s.ndjson" % tag)
    with open(jf, "w") as f:
        for j in jobs:
            f.write(json.dumps(j) + "\n")
    out = os.path.join(ctx.scratch, "crash-trace-" + tag)
    hits = os.path.join(ctx.scratch, "crash-hits-" + tag)
    info = json.loads(vf.hkv(["crash-run", "-bin", binp, "-jobs", jf, "-out", out, "-hits", hits, "-scratch", ctx.sub("runs-" + tag), "-par", str(par)],
                             timeout=3000).strip().splitlines()[-1])
    return out, hits, info


def run(ctx):
    vf.build_hkv()
    binp = vf.build_repo_binary(os.path.join(vf.BUILD, "hookaido-verif"))
    rnd = random.Random(ctx.seed)
    nwork, depth, nrand, per_hi = (2, 7, 16, 6) if ctx.quick else (24, 9, 400, 14)
    works = [CANON, LONE, FULL] + workloads(ctx, nwork, depth)
    ctx.sample({"kind": "TLC-generated workload", "ops": works[-1]})
    clean = [{"name": "w%d" % i, "ops": w, "crash": "", "kill_at_ms": 0, "hitlog": True} for i, w in enumerate(works)]
    out0, hitsf, info0 = run_jobs(ctx, binp, clean, "clean", vf.NCPU)
    if info0["errors"]:
        raise vf.Infra("clean runs failed: %s" % info0)
    hits = {}
    for line in open(hitsf):
        h = json.loads(line)
        hits[h["name"]] = h["hits"]
    jobs = []
    skip = ("reload.", "ingress.resolved", "ingress.before_", "pull.after_authorize", "sqlite.dequeue.after_prune", "sqlite.enqueue.after_fastpath", "cfgwrite.", "mcpwrite.")
    for i, w in enumerate(works):
        for lab, cnt in sorted(hits.get("w%d" % i, {}).items()):
            if lab.startswith(skip):
                continue
            ns = list(range(1, cnt + 1)) if cnt <= per_hi else sorted(rnd.sample(range(1, cnt + 1), per_hi))
            for n in ns:
                jobs.append({"name": "w%d-%s-%d" % (i, lab.replace(".", "_"), n), "ops": w, "crash": "%s:%d" % (lab, n), "kill_at_ms": 0, "hitlog": False, "label": lab})
        for k in range(nrand // len(works)):
            jobs.append({"name": "w%d-rand%d" % (i, k), "ops": w, "crash": "", "kill_at_ms": rnd.randint(1, 400), "hitlog": False, "label": "random"})
    # kills around and inside WAL checkpoints: the store checkpoints every millisecond (hook VERIF_SQLITE_CHECKPOINT_MS),
    # the run is killed at the n-th checkpoint's start / end and at random instants
    nck = 12 if ctx.quick else 300
    for k in range(nck):
        i = k % len(works)
        mode = k % 3
        crash = "" if mode == 0 else "%s:%d" % ("sqlite.checkpoint" if mode == 1 else "sqlite.checkpoint.done", rnd.randint(1, 150))
        jobs.append({"name": "w%d-ckpt%d" % (i, k), "ops": works[i], "crash": crash, "kill_at_ms": rnd.randint(1, 300) if mode == 0 else 0,
                     "hitlog": False, "ckpt_ms": 1, "label": "checkpoint"})
    # every other run restarts at once and polls before the killed process's leases ran out, then again afterwards
    for k, j in enumerate(jobs):
        j["early"] = k % 2 == 1
    clean_early = [dict(c, name=c["name"] + "-early", early=True, hitlog=False) for c in clean]
    jobs += clean_early
    ctx.count("crash_jobs", len(jobs))
    out1, _, info1 = run_jobs(ctx, binp, jobs, "crash", vf.NCPU)
    if info1["errors"] > len(jobs) // 10:
        raise vf.Infra("too many crash runs could not be executed: %s" % info1)
    res = vf.tv_run(ctx, [out0, out1], module="CrashTrace", name="tv-crash")
    ctx.cov["traces_validated_against_impl"] += len(jobs) + len(clean) - info1["errors"]
    ctx.cov["schedules_executed"] += len(jobs) + len(clean)
    byname = {j["name"]: j for j in jobs + clean}
    seen = {}
    selfcrash = acked = ck_runs = ck_inside = ck_total = 0
    labels_hit = set()
    for r in res:
        if r["error"]:
            raise vf.Infra("CrashTrace error: %s\n%s" % (r["error"], r.get("out_tail", "")))
        events = vf.load_trace(r["file"])
        name = None
        for e in events:
            if e["ev"] == "Reset":
                name = e["tr"]
            elif e["ev"] == "Crash":
                if "ckpt_begun" in e:
                    ck_runs += 1
                    ck_total += e["ckpt_done"]
                    ck_inside += 1 if e["ckpt_begun"] > e["ckpt_done"] else 0
                if e.get("self"):
                    selfcrash += 1
                    labels_hit.add(byname.get(name, {}).get("label", "?"))
            elif e["ev"] == "Enq" and e.get("acked"):
                acked += 1
        fails = list(r["fails"])
        if r["matched"] < r["total"]:
            fails.append((r["matched"] + 1, events[r["matched"]].get("ev", "?"), "rejected"))
        for (line, ev, check) in fails:
            if check == "lease_survives_restart":
                continue      # lease exclusivity across a restart is C03's statement (checks/c03.py, l2_part), not C01's
            nm, _ = vf.trace_of_line(events, line)
            lab = byname.get(nm, {}).get("label", "clean")
            sig = "L2/crash/%s/%s" % (check, lab)
            seen.setdefault(sig, (nm, events[line - 1]))
    ctx.count("self_crashes", selfcrash)
    ctx.count("acknowledged_requests", acked)
    ctx.count("labels_with_crash", len(labels_hit))
    ctx.count("checkpoint_runs", ck_runs)
    ctx.count("checkpoints_completed_before_kill", ck_total)
    ctx.count("kills_inside_a_checkpoint", ck_inside)
    if ck_runs and ck_total == 0:
        raise vf.Infra("vacuous: no WAL checkpoint ran in the checkpoint runs")
    for sig, (nm, e) in sorted(seen.items()):
        job = byname[nm]
        hit = False
        for attempt in range(4):
            o, _, inf = run_jobs(ctx, binp, [job], "repro", 1)
            rr = vf.tv_run(ctx, [o], module="CrashTrace", name="tv-repro")[0]
            if rr["fails"] or rr["matched"] < rr["total"]:
                hit = True
                break
        if not hit:
            raise vf.Infra("divergence %s (%s) did not reproduce in 4 attempts" % (sig, nm))
        vf.report(ctx, sig, "%s in run %s: %s" % (sig, nm, json.dumps(e)[:500]), {"layer": "L2", "job": job, "event": e})
    if selfcrash < 20 or acked < 20 or len(labels_hit) < 6:
        raise vf.Infra("vacuous run: self crashes %d, acknowledged %d, labels %s" % (selfcrash, acked, sorted(labels_hit)))
    ctx.assumptions += ["SQLite backend on a local file system; a process kill keeps the page cache, so this does not distinguish synchronous=FULL from OFF (no power-loss injection)",
                        "the client is sequential: at most one client request is in flight at a kill (the dispatcher runs concurrently)",
                        "a response that was lost in the kill counts as unacknowledged; both outcomes are accepted for it",
                        "redelivery after restart is observed on the pull route (client-chosen 1 s lease); for deliver routes presence and state are checked",
                        "memory backend is out of scope of this property (restart on the same database)"]
    vf.write_evidence(ctx, "fault_enumeration", RULE, exhaustive=False)


def replay(ctx, path):
    obj = json.load(open(path))
    vf.build_hkv()
    binp = vf.build_repo_binary(os.path.join(vf.BUILD, "hookaido-verif"))
    for attempt in range(4):
        o, _, inf = run_jobs(ctx, binp, [obj["job"]], "replay", 1)
        rr = vf.tv_run(ctx, [o], module="CrashTrace", name="tv-replay")[0]
        if rr["fails"]:
            for (line, ev, c) in rr["fails"]:
                print("line %d %s check '%s' failed" % (line, ev, c))
            vf.report(ctx, obj["sig"], "replayed: " + obj.get("text", ""), {"job": obj["job"]})
            return
    print("replay: accepted in 4 attempts")
