"""C10 - ingress route resolution and channel isolation."""
import os

import vf
from checks import ingressfam as ing

RULE = ("MC: every row of the abstract (configuration, request) tables of IngressMC (families A: order / channel / overlapping "
        "paths, B: every match criterion alone and combined, before / after other routes) is an initial state and satisfies the "
        "design-level facts of Ingress.tla (first inbound match, only inbound resolved, Allow sound, 404/405 without effect). "
        "GEN: TLC prints every configuration with its complete request set; every configuration is written as a Hookaidofile "
        "(twice when it has match criteria: inline match blocks for the plain request of each row, and the same criteria "
        "sets spelled through named matchers - one, two, split with an inline block - for the varied requests), "
        "compiled by the real config package, booted through app.VerifBoot, and every abstract row is sent as concrete requests "
        "(plain rendering + seeded variants sent as raw paths: dot-segments incl. a final '..' / '.' climbing out of another route's "
        "path, %2e%2e, doubled / trailing slashes, percent-encoding, Host case / port / "
        "trailing dot / IPv6 literal, RemoteAddr v4 / v6 / v4-mapped, with and without port, at prefix edges, comma lists) through "
        "the production ingress handler with a queue dump before and after. TV: IngressTrace requires status, Allow set, number, "
        "route and targets of the new messages = Outcome(cfg, req), and an untouched queue otherwise. exhaustive=true refers to the "
        "abstract tables; concrete strings are representatives of their abstract class. evaluations = concrete requests executed and "
        "validated; distinct_nontrivial = distinct abstract rows (every row differs from every other in configuration or request class).")


def run(ctx):
    vf.build_tool(ing.TOOL)
    # stages: (tag, table parts (name, families, AShape), concrete requests per row)
    if ctx.quick:
        stages = [("c10", [("A12", ["A"], (4, 4, 0)), ("A3", ["A"], (0, 0, 3)), ("B", ["B"], (0,))], 2)]
    else:
        stages = [("c10", [("A12", ["A"], (4, 4, 0, 0)), ("A3", ["A"], (0, 0, 4, 0)), ("B", ["B"], (0,))], 5),
                  ("c10-4", [("A4", ["A"], (0, 0, 0, 4))], 5)]
    table, res, files, cov, nrows, nevents = [], [], [], {}, 0, 0
    for (tag, parts, per) in stages:
        t = ing.mc_and_gen(ctx, [(n, f, a, False) for (n, f, a) in parts], lite=ctx.quick)
        tp = os.path.join(ctx.scratch, "table-%s.ndjson" % tag)
        ing.write_table(tp, t)
        n = sum(len(o["reqs"]) for o in t)
        info = ing.execute(ctx, tp, tag, per, ctx.seed)
        if info["configs"] != len(t) or info["rows"] != n or info["events"] != n * per:
            raise vf.Infra("executed %s, table has %d configurations / %d rows x %d" % (info, len(t), n, per))
        r, c = ing.validate(ctx, info["files"], tag)
        ing.add_cov(cov, c)
        table += [{"cfg": o["cfg"]} for o in t]   # the rows are on disk; keep the configurations for the position count
        res += r
        files += info["files"]
        nrows += n
        nevents += info["events"]
    ctx.count("table_configs", len(table))
    ctx.count("table_rows", nrows)
    ctx.cov["counters"]["coverage"] = cov

    # ---- non-vacuity (abstract classes actually executed and judged)
    for c in ("path", "method", "host", "hdr", "q", "ip"):
        ing.require(ctx, cov["sat"][c] > 0, "criterion %s never held as the deciding criterion" % c)
        ing.require(ctx, cov["viol"][c] > 0, "criterion %s never failed as the deciding criterion" % c)
    # every criterion kind of the configuration language decided a route while written through a named matcher
    # (`@name { ... }` + `match @name`), with a request that satisfies it and one that does not
    for f in ("method", "host", "header", "header_exists", "query", "query_exists", "remote_ip"):
        ing.require(ctx, cov["named_sat"][f] > 0, "criterion kind %s never held while spelled through a named matcher" % f)
        ing.require(ctx, cov["named_viol"][f] > 0, "criterion kind %s never failed while spelled through a named matcher" % f)
    pos = ing.channel_positions(table)
    for ch in ("inbound", "outbound", "internal"):
        for p in ("first", "middle", "last"):
            ing.require(ctx, (ch, p) in pos, "no configuration with an %s route in %s position" % (ch, p))
    ing.require(ctx, cov["noninbound_skipped"] > 0, "no request whose criteria all held on a non-inbound route")
    ing.require(ctx, cov["first_of_several"] > 0, "no request matched by more than one inbound route")
    ing.require(ctx, max(len(o["cfg"]) for o in table) >= 3 and min(len(o["cfg"]) for o in table) == 1, "configuration sizes")

    # raw-path renderings that separate a complete clean-up of the request path from a partial one: a final ".." that
    # climbs out of ANOTHER route's path (plain, percent-encoded, with trailing slash), "." / empty final segments
    pv = ing.count_variants(files, ["path:climb-route", "path:climbpct-route", "path:climbslash-route", "path:climb", "path:enddot",
                                    "path:dotdot", "path:dslash", "path:tslash", "path:pct", "host:dotport", "ip:noport",
                                    "spell:named", "spell:two", "spell:split", "spell:twoinline"])
    ctx.cov["counters"]["variants"] = pv
    for n, v in pv.items():
        ing.require(ctx, v > 0, "concretisation variant %s never sent" % n)

    ing.triage(ctx, res)

    # accepted / 404 / 405 are counted on agreeing events only, so they are required after triage has reported
    if not ctx.violations and not ctx.known:
        ing.require(ctx, cov["acc"]["none"] > 0 and cov["s404"] > 0 and cov["s405"] > 0, "accepted / 404 / 405 rows missing")
    got = ing.sample_events(files, {
        "accepted": lambda e: 200 <= e["obs"]["status"] < 300 and e["k"] > 0,
        "405": lambda e: e["obs"]["status"] == 405 and e["k"] > 0,
        "404": lambda e: e["obs"]["status"] == 404 and e["k"] > 0})
    for k in sorted(got):
        ctx.sample({"kind": k, **got[k]})
    ctx.assumptions += [
        "exhaustive over the abstract tables of IngressMC (quick: constant Lite = TRUE, thorough: FALSE and four-route configurations); the concrete requests are %s seeded representatives per row" % " / ".join(str(p) for (_, _, p) in stages),
        "memory queue backend; in-process production handler (app.VerifBoot), no TLS, no rate limit, no adaptive backpressure",
        "one header name and one query key per configuration carry the header / query criteria",
        "request classes whose reading is open are not emitted: lower-case request methods, empty Host, %2F in a segment, malformed query strings",
        "the accepted status is any 2xx (the statement does not fix it)"]
    vf.write_evidence(ctx, "model_checking", RULE, extra={"evaluations": nevents, "distinct_nontrivial": nrows}, exhaustive=True)


def replay(ctx, path):
    ing.replay(ctx, path)
