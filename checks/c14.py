"""C14 - operator queue mutations touch exactly what they name (store level)."""
from checks import queuefam as q
from checks import c14api

RULE = ("MC: QueueMC (operator + filter families over all message states) with OperatorExact (changed = selected, only from the allowed "
        "states, lease voided, count = |changed|) and Conservation; GEN: every edge of the bounded graph (by-id and by-filter forms, preview); "
        "seeded 'operator' driver with mixed routes / targets / states, explicit received_at ties, limits 0 / -1 / 1 / 1000 / 1001 / 5000, "
        "before-cursors, padded / blank / duplicate / unknown ids, and populations of > 1200 messages for the 100 / 1000 caps; executed on "
        "memory and SQLite; every event validated by TLC: Select = newest-first top-limit' of the matching messages in the allowed states, "
        "preview changes nothing and reports |Select|, post-state = exactly the selected messages mutated. distinct_nontrivial = validated events.")
PROPS = ["OperatorExact", "Conservation", "LeaseFence"]
FAM = ("operator", "filter", "lease")


def run(ctx):
    c = q.spec_cfg()
    if ctx.quick:
        plan = {"mc": [("oper", c, PROPS, dict(ids=2, family=FAM, horizon=10, maxep=1, maxins=2, ticks=(10,), delays=(0,), ttls=(30,)))],
                "gen": [("oper", c, dict(ids=2, family=FAM, horizon=0, maxep=1, maxins=2, pick="insertion", ticks=(10,), delays=(0,), ttls=(30,)), 3)],
                "drv": [("oper", "operator", 120, 60, dict(big_every=40))]}
    else:
        plan = {"mc": [("oper", c, PROPS, dict(ids=3, family=FAM, horizon=20, maxep=1, maxins=3, ticks=(10,), delays=(0,), ttls=(10, 30), timeout=3000))],
                "gen": [("oper", c, dict(ids=3, family=FAM, horizon=10, maxep=1, maxins=3, pick="insertion", ticks=(10,), delays=(0,), ttls=(30,)), 1)],
                "drv": [("oper", "operator", 3000, 80, dict(big_every=25))]}
    c14api.l1_part(ctx)   # the same operations THROUGH the Admin HTTP API and the MCP tools (admin-proxy mode)
    q.run_plan(ctx, plan, RULE + " " + c14api.RULE_L1, assumptions=["sequential histories only: the by-filter forms are select-then-update in SQLite and the property does not quantify over schedules",
                                             "admin HTTP / MCP argument parsing (parseManageIDs, parseMessageManageFilter) is the L1 part"])


def replay(ctx, path):
    import json
    obj = json.load(open(path))
    if obj.get("layer") == c14api.MARK:
        c14api.replay(ctx, obj)
    else:
        q.replay(ctx, path)
